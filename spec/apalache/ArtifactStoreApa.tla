------------------------- MODULE ArtifactStoreApa -------------------------
(***************************************************************************)
(* The write-once map of ArtifactStore.tla with Apalache type annotations,  *)
(* for an inductive-invariant argument that does not depend on the size of  *)
(* the key / value sets explored by TLC (property C18).                    *)
(*   apalache-mc check --init=IndInit --inv=IndInv --length=1 ...           *)
(*   apalache-mc check --init=IndInit --inv=WriteOnceStep --length=1 ...    *)
(* IndInit = TypeOK /\ OnlySerialisable over ARBITRARY stores (Gen), so one  *)
(* step from any such state is covered, not only the reachable ones.        *)
(***************************************************************************)
EXTENDS Integers, FiniteSets, Apalache

CONSTANTS
    \* @type: Set(Str);
    Keys,
    \* @type: Set(Str);
    Vals,
    \* @type: Set(Str);
    Fmts,
    \* @type: Set(<<Str, Str>>);
    Serialisable

VARIABLES
    \* @type: Set(Str);
    dom,
    \* @type: Str -> Str;
    val,
    \* @type: Str -> Str;
    fmt,
    \* @type: Str;
    reply,
    \* @type: Str;
    replyVal

CInit ==
    /\ Keys = Gen(4) /\ Vals = Gen(3) /\ Fmts = {"pickle", "json"}
    /\ Serialisable = Gen(6)
    /\ Keys # {} /\ Vals # {}

TypeOK ==
    /\ dom \subseteq Keys
    /\ val \in [Keys -> Vals \cup {"-"}]
    /\ fmt \in [Keys -> Fmts \cup {"-"}]
    /\ \A k \in Keys : k \in dom => val[k] \in Vals /\ fmt[k] \in Fmts
OnlySerialisable == \A k \in dom : <<val[k], fmt[k]>> \in Serialisable
IndInv == TypeOK /\ OnlySerialisable

Init == dom = {} /\ val = [k \in Keys |-> "-"] /\ fmt = [k \in Keys |-> "-"] /\ reply = "none" /\ replyVal = "-"

\* an arbitrary state satisfying the invariant (for the inductive step)
IndInit ==
    /\ dom = Gen(4) /\ val = Gen(4) /\ fmt = Gen(4) /\ reply = "none" /\ replyVal = "-"
    /\ IndInv

Save(k, v, f) ==
    IF k \in dom
    THEN reply' = "exists" /\ replyVal' = "-" /\ UNCHANGED <<dom, val, fmt>>
    ELSE IF <<v, f>> \in Serialisable
         THEN /\ dom' = dom \cup {k} /\ val' = [val EXCEPT ![k] = v] /\ fmt' = [fmt EXCEPT ![k] = f]
              /\ reply' = "ok" /\ replyVal' = "-"
         ELSE reply' = "failed" /\ replyVal' = "-" /\ UNCHANGED <<dom, val, fmt>>

Load(k) ==
    /\ UNCHANGED <<dom, val, fmt>>
    /\ IF k \in dom THEN reply' = "value" /\ replyVal' = val[k] ELSE reply' = "missing" /\ replyVal' = "-"

Next == (\E k \in Keys, v \in Vals, f \in Fmts : Save(k, v, f)) \/ (\E k \in Keys : Load(k))

\* action invariants (one step from ANY state satisfying IndInv)
WriteOnceStep == \A k \in dom : k \in dom' /\ val'[k] = val[k] /\ fmt'[k] = fmt[k]
KeyIsolationStep == Cardinality({k \in Keys : (k \in dom') # (k \in dom)}) <= 1
FailedLeavesUnsaved == reply' \in {"failed", "exists"} => (dom' = dom /\ val' = val /\ fmt' = fmt)
LoadFaithful == reply' = "value" => \E k \in dom : val[k] = replyVal'
=============================================================================
