---------------------------- MODULE EngineTrace ----------------------------
(***************************************************************************)
(* Conformance code -> spec, step-exact (DESIGN 5.2): executions of the     *)
(* REAL engine recorded action by action (which handle the loop ran, which  *)
(* body / collaborator completion or timer the environment delivered) are   *)
(* followed by Engine.tla.  Each recorded action must be ENABLED in the     *)
(* model (IsEvent + the Engine action), so TLC reaches the end of every     *)
(* script iff the model can do what the code did; the model states along    *)
(* the way are exported and compared with the recorded projections by       *)
(* harness/replay.py.  Unlike the exhaustive replay (spec -> code) this     *)
(* also works for instances far too large to enumerate.                     *)
(*                                                                         *)
(* IOEnv.SCRIPT_FILE: Seq(Seq(label)), label = <<"step", task name>> |      *)
(*   <<"fire", gate name>> | <<"tick">> | <<"cancel">>                      *)
(***************************************************************************)
EXTENDS Engine

Scripts == JsonDeserialize(IOEnv.SCRIPT_FILE)
VARIABLES k, l          \* script index, position in it
tvars == <<st, act, k, l>>

TInit == Init /\ k \in 1..Len(Scripts) /\ l = 1

IsEvent(kind) == l <= Len(Scripts[k]) /\ Scripts[k][l][1] = kind /\ l' = l + 1 /\ k' = k

TStep   == IsEvent("step") /\ Step /\ act'[2] = Scripts[k][l][2]
TFire   == IsEvent("fire") /\ \E t \in st.gates : Fire(t) /\ act'[2] = Scripts[k][l][2]
TTick   == IsEvent("tick") /\ Tick
TCancel == IsEvent("cancel") /\ CancelRun

TNext == TStep \/ TFire \/ TTick \/ TCancel
TSpec == TInit /\ [][TNext]_tvars

TExport == PrintT(<<"TEDGE", k, l, ToJson(st')>>)
=============================================================================
