------------------------------- MODULE Pools -------------------------------
(***************************************************************************)
(* The process-wide pool registries (ml_pipeline_engine/parallelism) and    *)
(* the fail-fast check of DAG.run (property C17, second half; DESIGN 11.3).  *)
(*                                                                         *)
(* Executor and manager OBJECTS exist independently of the registries: the  *)
(* user creates them, may shut them down directly, and registers them.      *)
(* A registry keeps the FIRST object it was given, for the life of the      *)
(* process (threads.py / processes.py / basic.py):                          *)
(*   register_pool_executor(o) : ignored if something is registered already *)
(*   register_manager(o)       : likewise (process registry only)           *)
(*   shutdown()                : shuts down whatever is registered          *)
(*   is_ready()                : thread : registered and not shut down      *)
(*                               process: pool registered and not shut down *)
(*                                        and a manager registered          *)
(*   get_pool_executor() / get_manager() : is_ready(), then the object      *)
(* DAG.run(needs) checks is_ready of every registry the DAG needs BEFORE    *)
(* the run manager is created: a missing pool is an error result with no    *)
(* node body invoked (fail fast); otherwise the run proceeds.               *)
(*                                                                         *)
(* Every action computes `reply`, what the call returns; PoolsTrace.tla     *)
(* compares it with the reply of the real call.                             *)
(***************************************************************************)
EXTENDS Naturals, Sequences, FiniteSets, TLC

CONSTANTS TPools, PPools, Mgrs       \* object identities per kind
None == "none"
Objs == TPools \cup PPools \cup Mgrs

VARIABLES obj,        \* [Objs -> {"live", "down"}]
          treg,       \* object held by the thread registry, or None
          preg,       \* ... by the process registry (pool)
          mreg,       \* ... by the process registry (manager)
          reply
vars == <<obj, treg, preg, mreg, reply>>

InitP == /\ obj = [o \in Objs |-> "live"] /\ treg = None /\ preg = None /\ mreg = None /\ reply = <<"none">>

ThreadReady == treg # None /\ obj[treg] = "live"
ProcReady   == preg # None /\ obj[preg] = "live" /\ mreg # None        \* the manager's own state is not looked at
Raises == <<"raises", "RuntimeError">>
Ok == <<"ok">>

RegisterThread(o) == /\ o \in TPools /\ treg' = IF treg = None THEN o ELSE treg
                     /\ reply' = Ok /\ UNCHANGED <<obj, preg, mreg>>
RegisterProc(o)   == /\ o \in PPools /\ preg' = IF preg = None THEN o ELSE preg
                     /\ reply' = Ok /\ UNCHANGED <<obj, treg, mreg>>
RegisterMgr(o)    == /\ o \in Mgrs /\ mreg' = IF mreg = None THEN o ELSE mreg
                     /\ reply' = Ok /\ UNCHANGED <<obj, treg, preg>>
(* the user shuts an object down directly *)
ShutObj(o) == /\ o \in Objs /\ obj' = [obj EXCEPT ![o] = "down"] /\ reply' = Ok /\ UNCHANGED <<treg, preg, mreg>>
ShutdownThreadRegistry ==
    /\ obj' = IF treg = None THEN obj ELSE [obj EXCEPT ![treg] = "down"]
    /\ reply' = Ok /\ UNCHANGED <<treg, preg, mreg>>
ShutdownProcRegistry ==
    /\ obj' = [o \in Objs |-> IF (preg # None /\ o = preg) \/ (mreg # None /\ o = mreg) THEN "down" ELSE obj[o]]
    /\ reply' = Ok /\ UNCHANGED <<treg, preg, mreg>>

IsReadyThread == reply' = (IF ThreadReady THEN Ok ELSE Raises) /\ UNCHANGED <<obj, treg, preg, mreg>>
IsReadyProc   == reply' = (IF ProcReady THEN Ok ELSE Raises) /\ UNCHANGED <<obj, treg, preg, mreg>>
GetThreadPool == reply' = (IF ThreadReady THEN <<"obj", treg>> ELSE Raises) /\ UNCHANGED <<obj, treg, preg, mreg>>
GetProcPool   == reply' = (IF ProcReady THEN <<"obj", preg>> ELSE Raises) /\ UNCHANGED <<obj, treg, preg, mreg>>
GetManager    == reply' = (IF ProcReady THEN <<"obj", mreg>> ELSE Raises) /\ UNCHANGED <<obj, treg, preg, mreg>>

(* DAG.run of a pipeline that needs (thread pool?, process pool?) *)
PoolMissing(needT, needP) == (needT /\ ~ThreadReady) \/ (needP /\ ~ProcReady)
RunReply(needT, needP) == IF PoolMissing(needT, needP) THEN <<"failfast">> ELSE <<"ran">>
Run(needT, needP) == reply' = RunReply(needT, needP) /\ UNCHANGED <<obj, treg, preg, mreg>>

NextP == \/ \E o \in TPools : RegisterThread(o)
         \/ \E o \in PPools : RegisterProc(o)
         \/ \E o \in Mgrs : RegisterMgr(o)
         \/ \E o \in Objs : ShutObj(o)
         \/ ShutdownThreadRegistry \/ ShutdownProcRegistry
         \/ IsReadyThread \/ IsReadyProc \/ GetThreadPool \/ GetProcPool \/ GetManager
         \/ \E a, b \in BOOLEAN : Run(a, b)
SpecP == InitP /\ [][NextP]_vars

(* ---- properties of the design (model-checked with 2 objects per kind) ---- *)
TypeOK == /\ obj \in [Objs -> {"live", "down"}] /\ treg \in TPools \cup {None} /\ preg \in PPools \cup {None}
          /\ mreg \in Mgrs \cup {None}
(* a registry keeps the first object for good *)
FirstWins == [][/\ (treg # None => treg' = treg) /\ (preg # None => preg' = preg) /\ (mreg # None => mreg' = mreg)]_vars
(* nothing comes back to life *)
DownIsFinal == [][\A o \in Objs : obj[o] = "down" => obj'[o] = "down"]_vars
(* ... hence a registry whose pool was shut down is never ready again: a run that needs it fails fast for ever *)
NeverReadyAgain == [][(treg # None /\ obj[treg] = "down" => ~ThreadReady') /\ (preg # None /\ obj[preg] = "down" => ~ProcReady')]_vars
(* C17.pool: a run proceeds only when every pool it needs can be handed out *)
RunsOnlyWithPools == \A a, b \in BOOLEAN : RunReply(a, b) = <<"ran">> => (a => ThreadReady) /\ (b => ProcReady)
=============================================================================
