------------------------------ MODULE Dataflow ------------------------------
(***************************************************************************)
(* Reference semantics of a pipeline (DESIGN 4.2): a schedule-free,         *)
(* purely functional evaluation of the declared dependency graph.          *)
(*                                                                         *)
(* A program P is a record produced by harness/programs.py:to_tla           *)
(*   P.nodes  : sequence of node records, dependencies first                *)
(*   P.order  : node id -> index in P.nodes                                 *)
(*   P.input, P.output : node ids                                           *)
(* node = [id, params, attempts, delay, excs, use_default, mode, is_start]  *)
(* param = [kw, kind, node, sw, cases, cands, start, max, head]             *)
(*   (params are sorted by kw; every kw sorts after "additional_data")      *)
(* A run R = [input |-> kwterm, plan |-> [node -> Seq(outcome)],            *)
(*            recreq |-> [node -> Int]   (recreq < 0: never asks to iterate),*)
(*            recfalsy |-> [node -> BOOLEAN] (the payload of next_iteration   *)
(*                          is the falsy value 0),                            *)
(*            recnone |-> [node -> Seq(Nat)] (requests whose payload is None),*)
(*            plan_it |-> [node -> Seq(plan)] (plan by epoch)]               *)
(* outcome = <<"ok">> | <<"none">> | <<"falsy">> | <<"label", l>>          *)
(*         | <<"raise", cls>>                                               *)
(*                                                                         *)
(* Terms: <<"v", n, kw>>, <<"dflt", n, kw>>, <<"data", dest, k, kw of dest>>,*)
(*        <<"s", text>>, <<"none">>, <<"falsy">>; kw = Seq(<<name, term>>)  *)
(* Results: <<"V", term>> | <<"F", set of error tokens>> | <<"R", data>>   *)
(***************************************************************************)
EXTENDS Naturals, Sequences, FiniteSets, TLC

Node(P, id) == P.nodes[P.order[id]]

Max2(a, b) == IF a >= b THEN a ELSE b

RECURSIVE MaxData(_, _), MaxDataKw(_, _)
MaxData(t, d) ==
    IF t[1] = "data" THEN (IF t[2] = d THEN Max2(t[3], MaxDataKw(t[4], d)) ELSE 0)   \* another destination's payload is opaque
    ELSE IF t[1] \in {"v", "dflt"} THEN MaxDataKw(t[3], d)
    ELSE IF t[1] = "recmark" THEN MaxData(t[2], d)
    ELSE 0
MaxDataKw(kw, d) ==
    IF Len(kw) = 0 THEN 0 ELSE Max2(MaxData(kw[1][2], d), MaxDataKw(Tail(kw), d))

(* the outcome of the k-th attempt (1-based) of node n called with kw *)
RECURSIVE MaxAny(_), MaxAnyKw(_)
MaxAny(t) ==
    IF t[1] = "data" THEN Max2(t[3], MaxAnyKw(t[4]))
    ELSE IF t[1] \in {"v", "dflt"} THEN MaxAnyKw(t[3])
    ELSE IF t[1] = "recmark" THEN MaxAny(t[2])
    ELSE 0
MaxAnyKw(kw) == IF Len(kw) = 0 THEN 0 ELSE Max2(MaxAny(kw[1][2]), MaxAnyKw(Tail(kw)))

Outcome(R, n, kw, k) ==
    LET byit == R.plan_it[n]
        ep  == MaxAnyKw(kw)
        pl  == IF Len(byit) = 0 THEN R.plan[n] ELSE byit[IF ep + 1 > Len(byit) THEN Len(byit) ELSE ep + 1]
        o   == pl[IF k > Len(pl) THEN Len(pl) ELSE k]
        req == R.recreq[n]
        it  == MaxDataKw(kw, n)
    IN  IF req >= 0 /\ o[1] = "ok" /\ it < req
        THEN <<"rec", IF R.recfalsy[n] THEN <<"falsy">>
                      ELSE IF \E i \in 1..Len(R.recnone[n]) : R.recnone[n][i] = it + 1 THEN <<"none">>   \* next_iteration(None)
                      ELSE <<"data", n, it + 1, kw>> >>
        ELSE o

(* E0: an Exception whose instances are falsy; B1: a BaseException; CE: a CancelledError raised by a body itself *)
IsExc(cls) == cls \in {"E0", "E1", "E2", "E3", "ET", "SI"}       \* SI: a StopIteration (surfaces as RuntimeError)       \* ET: a TimeoutError
Matches(cls, excs) ==
    \E i \in 1..Len(excs) : excs[i] = cls \/ (excs[i] \in {"Exception", "PlanError"} /\ IsExc(cls)) \/ excs[i] = "BaseException"
IsBaseTok(tok) == tok[1] = "err" /\ ~IsExc(tok[5])

(* retry / default policy: result, number of body invocations, whether get_default is called *)
RECURSIVE Attempt(_, _, _, _, _)
Attempt(R, rid, nd, kw, k) ==
    LET o == Outcome(R, nd.id, kw, k)
        dflt == [r |-> <<"V", <<"dflt", nd.id, kw>> >>, cnt |-> k, dfl |-> TRUE]
        val(t) == [r |-> <<"V", t>>, cnt |-> k, dfl |-> FALSE]
    IN  CASE o[1] = "ok"    -> val(<<"v", nd.id, kw>>)
          [] o[1] = "none"  -> val(<<"none">>)
          [] o[1] = "falsy" -> val(<<"falsy">>)
          [] o[1] = "label" -> val(<<"s", o[2]>>)
          [] o[1] = "rec"   -> [r |-> <<"R", o[2]>>, cnt |-> k, dfl |-> FALSE]
          [] o[1] = "raise" ->
               LET tok  == <<"err", rid, nd.id, k, o[2]>>
                   fail == [r |-> <<"F", {tok}>>, cnt |-> k, dfl |-> FALSE]
               IN  IF Matches(o[2], nd.excs)
                   THEN IF k >= nd.attempts
                        THEN (IF nd.use_default THEN dflt ELSE fail)
                        ELSE Attempt(R, rid, nd, kw, k + 1)
                   ELSE IF IsExc(o[2])
                        THEN (IF nd.use_default THEN dflt ELSE fail)
                        ELSE fail

(***************************************************************************)
(* Evaluation.  Every operator returns a record                            *)
(*   [r    : result,                                                       *)
(*    inv  : set of <<n, kw, cnt>>  body invocations a correct run MAY make,*)
(*    must : subset of inv a correct successful run MUST make,             *)
(*    dfl  : set of <<n, kw>> get_default calls a correct run may make]    *)
(* add : function  start node -> additional_data token currently in effect *)
(***************************************************************************)
Merge(a, b) == [inv |-> a.inv \cup b.inv, must |-> a.must \cup b.must, dfl |-> a.dfl \cup b.dfl]
Empty == [inv |-> {}, must |-> {}, dfl |-> {}]
WithR(res, acc) == [r |-> res, inv |-> acc.inv, must |-> acc.must, dfl |-> acc.dfl]
Acc(e) == [inv |-> e.inv, must |-> e.must, dfl |-> e.dfl]
NoMust(acc) == [inv |-> acc.inv, must |-> {}, dfl |-> acc.dfl]
(* invocations of one iteration added to those of the earlier iterations: a node INSIDE the sub-graph that is invoked
   with identical arguments in two iterations is invoked twice (counts add); a node outside it is invoked once *)
AddBag(A, B, inside) ==
    LET both(x, S) == {y \in S : y[1] = x[1] /\ y[2] = x[2]}
    IN  {x \in A : x[1] \notin inside \/ both(x, B) = {}}
        \cup {x \in B : x[1] \notin inside \/ both(x, A) = {}}
        \cup {<<x[1], x[2], x[3] + (CHOOSE y \in both(x, B) : TRUE)[3]>> : x \in {z \in A : z[1] \in inside /\ both(z, B) # {}}}
MergeRec(a, b, inside) == [inv |-> AddBag(a.inv, b.inv, inside), must |-> AddBag(a.must, b.must, inside), dfl |-> a.dfl \cup b.dfl]

RECURSIVE EvalN(_, _, _, _, _), EvalParams(_, _, _, _, _, _), EvalParam(_, _, _, _, _),
          EvalOneOf(_, _, _, _, _, _, _), EvalRec(_, _, _, _, _, _, _)

EvalN(P, R, rid, n, add) ==
    LET nd == Node(P, n)
        ps == EvalParams(P, R, rid, nd.params, 1, add)
    IN  IF ps.causes # {}
        THEN WithR(<<"F", ps.causes>>, NoMust(ps.acc))
        ELSE LET kw0 == IF n = P.input THEN R.input ELSE nd.const \o ps.kw     \* build_node's dependencies_default
                 kw  == IF n \in DOMAIN add THEN << <<"additional_data", add[n]>> >> \o kw0 ELSE kw0
                 b   == Attempt(R, rid, nd, kw, 1)
                 me  == {<<n, kw, b.cnt>>}
                 dd  == IF b.dfl THEN {<<n, kw>>} ELSE {}
             IN  IF b.r[1] = "F"
                 THEN [r |-> b.r, inv |-> ps.acc.inv \cup me, must |-> {}, dfl |-> ps.acc.dfl \cup dd]
                 ELSE [r |-> b.r, inv |-> ps.acc.inv \cup me, must |-> ps.acc.must \cup me,
                       dfl |-> ps.acc.dfl \cup dd]

(* parameters are evaluated independently (concurrently): all are demanded, failures accumulate *)
EvalParams(P, R, rid, params, i, add) ==
    IF i > Len(params) THEN [kw |-> <<>>, causes |-> {}, acc |-> Empty]
    ELSE LET e    == EvalParam(P, R, rid, params[i], add)
             rest == EvalParams(P, R, rid, params, i + 1, add)
             c    == CASE e.r[1] = "F" -> e.r[2]
                       [] e.r[1] = "R" -> {<<"unresolved_rec", params[i].node>>}
                       [] OTHER -> {}
         IN  [kw     |-> IF e.r[1] = "V" THEN << <<params[i].kw, e.r[2]>> >> \o rest.kw ELSE rest.kw,
              causes |-> c \cup rest.causes,
              acc    |-> Merge(Acc(e), rest.acc)]

CaseOf(p, label) ==
    LET hits == {i \in 1..Len(p.cases) : p.cases[i][1] = label}
    IN  IF hits = {} THEN "-" ELSE p.cases[CHOOSE i \in hits : \A j \in hits : i <= j][2]

EvalParam(P, R, rid, p, add) ==
    CASE p.kind = "input"  -> EvalN(P, R, rid, p.node, add)
      [] p.kind = "switch" ->
            LET s == EvalN(P, R, rid, p.sw, add)
            IN  IF s.r[1] # "V" THEN s
                ELSE LET c == IF s.r[2][1] = "s" THEN CaseOf(p, s.r[2][2]) ELSE "-"
                     IN  IF c = "-"
                         THEN WithR(<<"F", {<<"unknown_label", p.sw>>}>>, NoMust(Acc(s)))
                         ELSE LET e == EvalN(P, R, rid, c, add)
                              IN  WithR(e.r, IF e.r[1] = "F" THEN NoMust(Merge(Acc(s), Acc(e)))
                                             ELSE Merge(Acc(s), Acc(e)))
      [] p.kind = "oneof"  -> EvalOneOf(P, R, rid, p, 1, add, Empty)
      [] p.kind = "rec"    -> EvalRec(P, R, rid, p, 0, add, Empty)

(* Failures a one-of does not contain: a BaseException that is not an Exception escapes every handler of   *)
(* the engine, and a switch label without a case "fails the run with an error" (property C09).             *)
Fatal(causes) == \E c \in causes : c[1] = "unknown_label" \/ IsBaseTok(c)

(* candidates in declared order; candidate i+1 is demanded only when 1..i failed *)
EvalOneOf(P, R, rid, p, i, add, acc) ==
    IF i > Len(p.cands)
    THEN WithR(<<"F", {<<"oneof_noresult", p.head>>}>>, NoMust(acc))
    ELSE LET e == EvalN(P, R, rid, p.cands[i], add)
         IN  IF e.r[1] = "V"
             THEN WithR(e.r, Merge(acc, Acc(e)))
             ELSE IF e.r[1] = "F" /\ Fatal(e.r[2])
                  THEN WithR(<<"F", {c \in e.r[2] : Fatal({c})}>>, Merge(acc, NoMust(Acc(e))))
                  ELSE EvalOneOf(P, R, rid, p, i + 1, add, Merge(acc, NoMust(Acc(e))))

(* k = number of re-iterations already made *)
EvalRec(P, R, rid, p, k, add, acc) ==
    LET e   == EvalN(P, R, rid, p.node, add)
        inside == {P.rec_members[p.node][i] : i \in 1..Len(P.rec_members[p.node])}
        all == MergeRec(acc, Acc(e), inside)
    IN  IF e.r[1] # "R" THEN WithR(e.r, IF e.r[1] = "F" THEN NoMust(all) ELSE all)
        ELSE IF k < p.max
             THEN EvalRec(P, R, rid, p, k + 1,
                          IF e.r[2] = <<"none">> THEN [x \in DOMAIN add \ {p.start} |-> add[x]]     \* None: no additional_data
                          ELSE (p.start :> e.r[2]) @@ add, all)
             ELSE LET nd == Node(P, p.node)
                      last == CHOOSE x \in e.inv : x[1] = p.node /\
                                   \A y \in e.inv : y[1] = p.node => MaxDataKw(y[2], p.node) <= MaxDataKw(x[2], p.node)
                  IN  IF nd.use_default
                      THEN [r |-> <<"V", <<"dflt", p.node, last[2]>> >>, inv |-> all.inv, must |-> all.must,
                            dfl |-> all.dfl \cup {<<p.node, last[2]>>}]
                      ELSE WithR(<<"F", {<<"rec_noresult", p.node>>}>>, NoMust(all))

Sem(P, R, rid) == EvalN(P, R, rid, P.output, <<>>)

InvKeys(s) == {<<x[1], x[2]>> : x \in s.inv}
InvNodes(s) == {x[1] : x \in s.inv}
InvCount(s, n, kw) == LET hits == {x \in s.inv : x[1] = n /\ x[2] = kw}
                      IN IF hits = {} THEN 0 ELSE (CHOOSE x \in hits : TRUE)[3]
=============================================================================
