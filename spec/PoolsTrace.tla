----------------------------- MODULE PoolsTrace -----------------------------
(***************************************************************************)
(* Trace validation of recorded histories of the REAL pool registries and   *)
(* of DAG.run's fail-fast check against Pools.tla (property C17).  Every     *)
(* recorded call is matched with the specification's action, which computes *)
(* the reply the call must have produced in the current abstract state; a   *)
(* different observed reply is a violated clause.  Verdicts are total.       *)
(*                                                                         *)
(* Input: [histories |-> Seq([id, ops])]                                    *)
(*   op = [op, o, needT, needP, reply]                                      *)
(*   op in regT regP regM shut shutT shutP readyT readyP getT getP getM run *)
(*   observed reply: <<"ok">> <<"raises", cls>> <<"obj", id>> <<"failfast">>*)
(*                   <<"ran">> <<"partial">> (bodies ran, then a pool error) *)
(*                   <<"other", text>>                                      *)
(***************************************************************************)
EXTENDS Naturals, Sequences, FiniteSets, TLC, Json, IOUtils

Batch == JsonDeserialize(IOEnv.TRACE_FILE)
H == Batch.histories
NH == Len(H)

VARIABLES obj, treg, preg, mreg, reply, h, l, viol, out, done,
          toff, poff, moff      \* every object ever offered to a registry (whatever the registry made of the offer)
tvars == <<obj, treg, preg, mreg, reply, h, l, viol, out, done, toff, poff, moff>>

AllT == {"t1", "t2", "t3"}
AllP == {"p1", "p2", "p3"}
AllM == {"m1", "m2", "m3"}
P == INSTANCE Pools WITH TPools <- AllT, PPools <- AllP, Mgrs <- AllM

SetToSeq(X) == LET RECURSIVE f(_)
                   f(Y) == IF Y = {} THEN <<>> ELSE LET x == CHOOSE y \in Y : TRUE IN <<x>> \o f(Y \ {x})
               IN f(X)

(* the specification's action for a recorded call *)
Act(o) ==
    CASE o.op = "regT"   -> P!RegisterThread(o.o)
      [] o.op = "regP"   -> P!RegisterProc(o.o)
      [] o.op = "regM"   -> P!RegisterMgr(o.o)
      [] o.op = "shut"   -> P!ShutObj(o.o)
      [] o.op = "shutT"  -> P!ShutdownThreadRegistry
      [] o.op = "shutP"  -> P!ShutdownProcRegistry
      [] o.op = "readyT" -> P!IsReadyThread
      [] o.op = "readyP" -> P!IsReadyProc
      [] o.op = "getT"   -> P!GetThreadPool
      [] o.op = "getP"   -> P!GetProcPool
      [] o.op = "getM"   -> P!GetManager
      [] o.op = "run"    -> P!Run(o.needT, o.needP)

(* What the PROPERTY says about a run, independently of how a registry treats repeated registrations (that it keeps the
   first object for good is this implementation's design, specified in Pools.tla, not something C17 demands):
   a needed pool is certainly missing when nothing live was ever offered for it, and certainly there when everything
   that was offered is live. *)
NoneLive(S) == \A o \in S : obj[o] = "down"
AllLive(S) == S # {} /\ \A o \in S : obj[o] = "live"
MustFail(o) == (o.needT /\ NoneLive(toff)) \/ (o.needP /\ (NoneLive(poff) \/ moff = {}))
MustRun(o) == (o.needT => AllLive(toff)) /\ (o.needP => AllLive(poff) /\ moff # {})

(* verdict for a call: "C17.*" = the property is violated; "drift.*" = the real registries do not behave as Pools.tla
   says (the specification is out of date) without the property being violated *)
Judge(o, exp) ==
    IF o.op = "run"
    THEN (IF o.reply \notin {<<"ran">>, <<"failfast">>} THEN {"C17.pool"}        \* ran partially / hung: neither ran nor failed fast
          ELSE IF o.reply = <<"ran">> /\ MustFail(o) THEN {"C17.pool"}
          ELSE IF o.reply = <<"failfast">> /\ MustRun(o) THEN {"C17.mode"}
          ELSE IF o.reply # exp THEN {"drift.run"} ELSE {})
    ELSE (IF o.reply = exp THEN {} ELSE {"drift.registry"})

Init == /\ P!InitP /\ h = 1 /\ l = 1 /\ viol = {} /\ out = <<>> /\ done = FALSE /\ toff = {} /\ poff = {} /\ moff = {}

Consume ==
    /\ h <= NH /\ l <= Len(H[h].ops)
    /\ LET o == H[h].ops[l]
       IN  /\ Act(o)
           /\ viol' = viol \cup {<<c, l>> : c \in Judge(o, reply')}
           /\ toff' = IF o.op = "regT" THEN toff \cup {o.o} ELSE toff
           /\ poff' = IF o.op = "regP" THEN poff \cup {o.o} ELSE poff
           /\ moff' = IF o.op = "regM" THEN moff \cup {o.o} ELSE moff
    /\ l' = l + 1
    /\ UNCHANGED <<h, out, done>>

EndHistory ==
    /\ h <= NH /\ l > Len(H[h].ops)
    /\ out' = Append(out, [id |-> H[h].id, viol |-> SetToSeq(viol)])
    /\ h' = h + 1 /\ l' = 1 /\ viol' = {}
    /\ obj' = [o \in AllT \cup AllP \cup AllM |-> "live"] /\ treg' = "none" /\ preg' = "none" /\ mreg' = "none"
    /\ reply' = <<"none">> /\ toff' = {} /\ poff' = {} /\ moff' = {}
    /\ UNCHANGED done

Finish ==
    /\ h > NH /\ ~done
    /\ JsonSerialize(IOEnv.OUT_FILE, out)
    /\ done' = TRUE
    /\ UNCHANGED <<obj, treg, preg, mreg, reply, h, l, viol, out, toff, poff, moff>>

Next == Consume \/ EndHistory \/ Finish
Spec == Init /\ [][Next]_tvars
AllConsumed == done => (h = NH + 1 /\ Len(out) = NH)
=============================================================================
