--------------------------- MODULE BuilderMachine ---------------------------
(***************************************************************************)
(* Part (ii) of the builder specification: the worklist algorithm of        *)
(* _traverse_breadth_first_to_dag as a state machine with a nondeterministic*)
(* pop.  See Builder.tla for the data model and the declarative answer.     *)
(***************************************************************************)
EXTENDS Builder, Json, IOUtils

(* ---- (ii) the worklist machine ---- *)
AllDecls == JsonDeserialize(IOEnv.DECL_FILE)   \* Seq(D): the instance explores every D and every pop order
VARIABLES di, work, visited, g, validated, verdict
bvars == <<di, work, visited, g, validated, verdict>>

EmptyG == [nodes |-> {}, edges |-> {}, attrs |-> {}, map |-> {}, recs |-> {}]

BInit == /\ di \in 1..Len(AllDecls)
         /\ work = {AllDecls[di].output} /\ visited = {AllDecls[di].output}
         /\ g = [EmptyG EXCEPT !.map = {AllDecls[di].input}]
         /\ validated = <<>>
         /\ verdict = IF \E i \in 1..Len(AllDecls[di].decls) : AllDecls[di].decls[i].defect = "generic_partial"
                      THEN "NonRedefinedGenericTypeError"      \* rejected by build_node before build_dag is called
                      ELSE "running"

Pop(n) ==
    LET D == AllDecls[di]
        d == Decl(D, n)
    IN  /\ verdict = "running" /\ n \in work
        /\ validated' = Append(validated, n)
        /\ IF d.defect \in TraversalDefects
           THEN /\ verdict' = ErrorOf(d.defect)
                /\ UNCHANGED <<work, visited, g>>
           ELSE LET c == Contribution(D, n)
                    push == (DeclTargets(D, n) \cup (IF ~HasMarks(D, n) /\ n # D.input THEN {D.input} ELSE {})) \ visited
                IN  /\ g' = [nodes |-> g.nodes \cup c.nodes, edges |-> g.edges \cup c.edges,
                             attrs |-> g.attrs \cup c.attrs, map |-> g.map \cup c.map, recs |-> g.recs \cup c.recs]
                    /\ work' = (work \ {n}) \cup push
                    /\ visited' = visited \cup push
                    /\ verdict' = verdict
        /\ UNCHANGED di

Validate ==
    LET D == AllDecls[di]
    IN  /\ verdict = "running" /\ work = {}
        /\ verdict' = IF \E p \in g.recs : Decl(D, p[2]).defect = "rec_noproto" THEN "IncorrectRecurrentMixinClass"
                      ELSE IF \E p \in g.recs : Decl(D, p[1]).defect = "rec_noaddl" THEN "IncorrectParamsRecurrentNode"
                      ELSE "ok"
        /\ UNCHANGED <<di, work, visited, g, validated>>

BNext == (\E n \in work : Pop(n)) \/ Validate
BSpec == BInit /\ [][BNext]_bvars

(* every traversal order gives the declarative answer *)
Confluent ==
    verdict # "running" =>
        /\ verdict \in ExpectedVerdict(AllDecls[di])
        /\ verdict = "ok" =>
             LET e == ExpectedGraph(AllDecls[di])
             IN  g.nodes = e.nodes /\ g.edges = e.edges /\ g.attrs = e.attrs /\ g.map = e.map
(* every reachable class is validated, exactly once, in every order *)
ValidatedOnce ==
    /\ \A i, j \in 1..Len(validated) : i # j => validated[i] # validated[j]
    /\ verdict = "ok" => SeqToSet(validated) = Reach(AllDecls[di])
=============================================================================
