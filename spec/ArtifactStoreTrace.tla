------------------------ MODULE ArtifactStoreTrace ------------------------
(***************************************************************************)
(* Trace validation of recorded histories of the REAL FileSystemArtifact-   *)
(* Store against ArtifactStore.tla (property C18).  Every recorded call is  *)
(* matched with the specification's Save / Load action: the specification   *)
(* computes the reply the call must have produced in the current abstract   *)
(* state; a different observed reply is a violated clause.  Verdicts are    *)
(* total (all histories are consumed to the end, following the spec state). *)
(*                                                                         *)
(* Input: [ser |-> Seq(<<val, fmt>>), histories |-> Seq([id, ops])]         *)
(*   op = [op, key, val, fmt, reply]; key = <<model, pipeline, node id>>    *)
(*   observed reply: <<"ok">> <<"exists">> <<"failed", cls>> <<"value", v>> *)
(*                   <<"missing">> <<"error", cls>>                         *)
(***************************************************************************)
EXTENDS Naturals, Sequences, FiniteSets, TLC, Json, IOUtils

Batch == JsonDeserialize(IOEnv.TRACE_FILE)
H == Batch.histories
NH == Len(H)
BatchSer == {Batch.ser[i] : i \in 1..Len(Batch.ser)}

VARIABLES store, reply, h, l, viol, failed, out, done
vars == <<store, reply, h, l, viol, failed, out, done>>

AllKeys == UNION {{H[i].ops[j].key : j \in 1..Len(H[i].ops)} : i \in 1..NH}
S == INSTANCE ArtifactStore WITH Keys <- AllKeys, Vals <- {}, Fmts <- {}, Serialisable <- BatchSer

SetToSeq(X) == LET RECURSIVE f(_)
                   f(Y) == IF Y = {} THEN <<>> ELSE LET x == CHOOSE y \in Y : TRUE IN <<x>> \o f(Y \ {x})
               IN f(X)

OtherHolds(k, v) == \E k2 \in DOMAIN store : k2 # k /\ store[k2].val = v

Judge(o) ==
    IF o.op = "save"
    THEN LET exp == S!SaveReply(store, o.key, o.val, o.fmt)
             obs == o.reply
         IN  CASE exp = <<"ok">> ->
                    (IF obs = <<"ok">> THEN {}
                     ELSE IF obs = <<"exists">>
                          THEN (IF o.key \in failed THEN {"C18.failed"} ELSE {"C18.isolation"})
                          ELSE {"C18.roundtrip"})
               [] exp = <<"exists">> -> (IF obs = <<"exists">> THEN {} ELSE {"C18.once"})
               [] exp = <<"failed">> -> (IF obs[1] = "failed" THEN {} ELSE {"C18.failed"})
    ELSE LET exp == S!LoadReply(store, o.key)
             obs == o.reply
         IN  IF exp[1] = "value"
             THEN (IF obs = exp THEN {}
                   ELSE IF obs[1] = "value" /\ OtherHolds(o.key, obs[2]) THEN {"C18.isolation"}
                   ELSE IF obs[1] = "value" THEN {"C18.once", "C18.roundtrip"}
                   ELSE {"C18.roundtrip"})
             ELSE (IF obs = <<"missing">> THEN {}
                   ELSE IF obs[1] = "value"
                        THEN (IF OtherHolds(o.key, obs[2]) THEN {"C18.isolation"} ELSE {"C18.failed"})
                        ELSE (IF o.key \in failed THEN {"C18.failed"} ELSE {"C18.missing"}))

Init == /\ store = <<>> /\ reply = <<"none">> /\ h = 1 /\ l = 1 /\ viol = {} /\ failed = {}
        /\ out = <<>> /\ done = FALSE

Consume ==
    /\ h <= NH /\ l <= Len(H[h].ops)
    /\ LET o == H[h].ops[l]
       IN  /\ viol' = viol \cup {<<c, l>> : c \in Judge(o)}
           /\ IF o.op = "save" THEN S!Save(o.key, o.val, o.fmt) ELSE S!Load(o.key)
           /\ failed' = IF o.op = "save" /\ S!SaveReply(store, o.key, o.val, o.fmt) = <<"failed">>
                        THEN failed \cup {o.key} ELSE failed
    /\ l' = l + 1
    /\ UNCHANGED <<h, out, done>>

EndHistory ==
    /\ h <= NH /\ l > Len(H[h].ops)
    /\ out' = Append(out, [id |-> H[h].id, viol |-> SetToSeq(viol)])
    /\ h' = h + 1 /\ l' = 1 /\ viol' = {} /\ failed' = {} /\ store' = <<>> /\ reply' = <<"none">>
    /\ UNCHANGED done

Finish ==
    /\ h > NH /\ ~done
    /\ JsonSerialize(IOEnv.OUT_FILE, out)
    /\ done' = TRUE
    /\ UNCHANGED <<store, reply, h, l, viol, failed, out>>

Next == Consume \/ EndHistory \/ Finish
Spec == Init /\ [][Next]_vars
AllConsumed == done => (h = NH + 1 /\ Len(out) = NH)
=============================================================================
