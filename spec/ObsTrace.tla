------------------------------ MODULE ObsTrace ------------------------------
(***************************************************************************)
(* Observable-level specification (level O, DESIGN 3, 5.2): what any        *)
(* correct engine may let an observer see, as a trace-consuming state       *)
(* machine.  It knows nothing about tasks or conditions.  Every line of a   *)
(* recorded execution of the real engine is consumed unconditionally and   *)
(* each property clause (Appendix A of DESIGN.md) is evaluated at the line  *)
(* that can falsify it; the verdict per trace is TOTAL: the set of          *)
(* <<clause id, line number>> pairs that failed.                            *)
(*                                                                         *)
(* Input  (IOEnv.TRACE_FILE): [programs |-> Seq(P), traces |-> Seq(T)]      *)
(*   T = [id, pi (index into programs), amb, overlap, poolmissing, faulty,  *)
(*        lines]                                                           *)
(* Output (IOEnv.OUT_FILE): JSON sequence of [id, viol |-> Seq(<<c, l>>)]   *)
(***************************************************************************)
EXTENDS Dataflow, Json, IOUtils

Batch == JsonDeserialize(IOEnv.TRACE_FILE)
Progs == Batch.programs
Traces == Batch.traces
NT == Len(Traces)

VARIABLES t, l, st, g, viol, sem, out, done, hist
vars == <<t, l, st, g, viol, sem, out, done, hist>>

MaxOf(S) == CHOOSE i \in S : \A j \in S : j <= i
LastIdx(seq, Pred(_)) == LET I == {i \in 1..Len(seq) : Pred(seq[i])} IN IF I = {} THEN 0 ELSE MaxOf(I)
Count(seq, Pred(_)) == Cardinality({i \in 1..Len(seq) : Pred(seq[i])})
SetToSeq(S) == LET RECURSIVE f(_)
                   f(X) == IF X = {} THEN <<>> ELSE LET x == CHOOSE y \in X : TRUE IN <<x>> \o f(X \ {x})
               IN f(S)

(* per-run observation state *)
InitRun == [log |-> <<>>, announced |-> {}, ret |-> <<>>, cancelled |-> FALSE, pk |-> 0,
            snapin |-> "-", fresh |-> <<>>, late |-> 0]
InitSt(T) == [r \in 1..Len(Progs[T.pi].runs) |-> InitRun]
InitG == [snap |-> <<>>, outcomes |-> {}]
SemOf(T) == LET P == Progs[T.pi] IN [r \in 1..Len(P.runs) |-> Sem(P, P.runs[r], r)]

(* log entries: <<"BS", n, kw, t, act>>, <<"BE", n, kw, out, t>>, <<"DF", n, kw, out>>,
                <<"EV", kind, n, err, res>>, <<"SV", n, v>> *)
IsBS(x) == x[1] = "BS"
IsBE(x) == x[1] = "BE"
IsDF(x) == x[1] = "DF"
IsEV(x) == x[1] = "EV"
IsSV(x) == x[1] = "SV"
NodeOf(x) == IF x[1] = "EV" THEN x[3] ELSE x[2]

(* entries of node n since its last node_start event (the current execution of n) *)
CurExec(log, n) ==
    LET i0 == LastIdx(log, LAMBDA x : IsEV(x) /\ x[2] = "node_start" /\ x[3] = n)
    IN  [open |-> i0 > 0,
         ents |-> IF i0 = 0 THEN <<>> ELSE SelectSeq(SubSeq(log, i0 + 1, Len(log)), LAMBDA x : NodeOf(x) = n)]

KwBad(kw) == \E i \in 1..Len(kw) : kw[i][2][1] \in {"recmark", "errval", "unk"}
KwErrVal(kw) == \E i \in 1..Len(kw) : kw[i][2][1] = "errval"
KwProvTerms(kw) == {kw[i][2] : i \in {j \in 1..Len(kw) : kw[j][2][1] \in {"v", "dflt"}}}

Feat(P, base, sw, oo, rc) ==
    base \cup (IF P.has_switch THEN sw ELSE {}) \cup (IF P.has_oneof THEN oo ELSE {})
         \cup (IF P.has_rec THEN rc ELSE {})

(***************************************************************************)
(* Clause checks, one operator per line kind.  Each returns a set of        *)
(* clause ids.  P program, T trace record, sm = Sem of the line's run,      *)
(* s = that run's observation state BEFORE the line.                        *)
(***************************************************************************)
LateC(s) == IF s.ret # <<>> THEN {"C13.quiet"} ELSE {}
StartC(s) == IF Len(s.log) = 0 \/ ~(IsEV(s.log[1]) /\ s.log[1][2] = "pipeline_start")
             THEN {"C14.start"} ELSE {}
AfterCompleteC(s) == IF \E i \in 1..Len(s.log) : IsEV(s.log[i]) /\ s.log[i][2] = "pipeline_complete"
                     THEN {"C14.complete"} ELSE {}

PayloadRepeats(P, r) == \E n \in DOMAIN P.runs[r].recnone : Len(P.runs[r].recnone[n]) > 0 \/ P.runs[r].recfalsy[n]
(* a None inside a provenance term: some body was invoked with None *)
RECURSIVE HasNoneLeaf(_)
HasNoneLeaf(tm) ==
    CASE tm[1] = "none" -> TRUE
      [] tm[1] \in {"v", "dflt"} -> \E i \in 1..Len(tm[3]) : HasNoneLeaf(tm[3][i][2])
      [] tm[1] = "data" -> \E i \in 1..Len(tm[4]) : HasNoneLeaf(tm[4][i][2])
      [] OTHER -> FALSE
PlansNone(P, r) == \/ \E n \in DOMAIN P.runs[r].plan : \E i \in 1..Len(P.runs[r].plan[n]) : P.runs[r].plan[n][i][1] = "none"
                   \/ \E n \in DOMAIN P.runs[r].plan_it : \E a \in 1..Len(P.runs[r].plan_it[n]) :
                          \E b \in 1..Len(P.runs[r].plan_it[n][a]) : P.runs[r].plan_it[n][a][b][1] = "none"
                   \/ \E n \in DOMAIN P.runs[r].recnone : Len(P.runs[r].recnone[n]) > 0

CheckBodyStart(P, T, sm, s, ln) ==
    LET n == ln.n
        kw == ln.kw
        nd == Node(P, n)
        cnt == Count(s.log, LAMBDA x : IsBS(x) /\ x[2] = n /\ x[3] = kw)
        ce == CurExec(s.log, n)
        nbs == Count(ce.ents, IsBS)
        ncomp == Count(ce.ents, LAMBDA x : IsEV(x) /\ x[2] = "node_complete")
        lastbe == LastIdx(s.log, LAMBDA x : IsBE(x) /\ x[2] = n /\ x[3] = kw)
        invc ==
            IF T.amb THEN {}
            ELSE IF <<n, kw>> \in InvKeys(sm)
                 THEN (IF cnt + 1 > InvCount(sm, n, kw)
                       THEN {"C04.once"} \cup (IF nd.attempts > 1 THEN {"C12.count"} ELSE {})
                                         \cup (IF P.has_rec THEN {"C11.bound"} ELSE {})
                                         \cup (IF \E k \in 1..Len(P.case_nodes) : P.case_nodes[k] = n THEN {"C09.reuse"} ELSE {})
                       ELSE {})
                 ELSE IF \E x \in sm.inv : x[1] = n /\ Count(s.log, LAMBDA y : IsBS(y) /\ y[2] = n /\ y[3] = x[2]) < x[3]
                      THEN (* an expected invocation of n is still outstanding: this is it, with wrong arguments *)
                           Feat(P, {"C03.final"} \cup (IF nd.attempts > 1 THEN {"C12.sameargs"} ELSE {}),
                                {"C09.route"}, {"C10.first"}, {"C11.data"})
                      ELSE (* nothing asks for (another) execution of n: it was not demanded *)
                           Feat(P, IF P.has_switch \/ P.has_oneof \/ P.has_rec THEN {} ELSE {"C03.final"},
                                {"C09.lazy"}, {"C10.lazy"}, {"C11.paths"})
        (* a None that the declared source never returns is a placeholder for a missing / invalidated result *)
        placeholder == \E i \in 1..Len(kw) : kw[i][2] = <<"none">> /\
                          \E j \in 1..Len(nd.params) :
                              /\ nd.params[j].kw = kw[i][1] /\ nd.params[j].kind \in {"input", "rec"}
                              /\ LET src == nd.params[j].node
                                     pls == <<P.runs[ln.r].plan[src]>> \o P.runs[ln.r].plan_it[src]
                                 IN  ~\E a \in 1..Len(pls) : \E b \in 1..Len(pls[a]) : pls[a][b][1] = "none"
        prevbs == SelectSeq(ce.ents, IsBS)
        sameargsc == IF Len(prevbs) > 0 /\ prevbs[Len(prevbs)][3] # kw THEN {"C12.sameargs"} ELSE {}
        cleanc == (IF KwBad(kw) \/ placeholder THEN {"C03.clean"} ELSE {}) \cup sameargsc
                  \cup (IF KwErrVal(kw) /\ P.has_oneof THEN {"C10.contain"} ELSE {})
        inputc == IF n = P.input /\ ~nd.is_start /\ kw # P.runs[ln.r].input THEN {"C03.input"} ELSE {}
        orderc == IF KwProvTerms(kw) \subseteq s.announced THEN {} ELSE {"C03.order", "C14.before"}
        pairc  == IF ~ce.open \/ nbs # ncomp THEN {"C14.pair"} ELSE {}
        delayc == IF cnt > 0 /\ lastbe > 0
                  THEN LET dt == ln.t - s.log[lastbe][5]
                       IN IF dt < nd.delay \/ dt > nd.delay + P.slack - (nd.delay * (nd.attempts - 1)) + 0
                          THEN {"C12.delay"} ELSE {}
                  ELSE {}
        (* without a reference value (T.amb): the arguments of a node embed the iteration they belong to, so a node
           invoked more often than `attempts` times with identical arguments was executed twice in one iteration -
           unless a plan repeats a payload (None / 0 carry no iteration index) *)
        ambonce == IF T.amb /\ ~T.faulty /\ ~PayloadRepeats(P, ln.r) /\ cnt + 1 > nd.attempts THEN {"C04.once"} ELSE {}
    IN  invc \cup cleanc \cup inputc \cup orderc \cup pairc \cup delayc \cup ambonce
        \cup LateC(s) \cup StartC(s) \cup AfterCompleteC(s)

(* a body that is declared to run as a coroutine, in a thread or in a process must not complete inside the very
   loop step that started it: run inline it blocks the loop and its equal-depth siblings cannot be in flight *)
CheckBodyEnd(P, T, sm, s, ln) ==
    LET nd == Node(P, ln.n)
        bs == LastIdx(s.log, LAMBDA x : IsBS(x) /\ x[2] = ln.n /\ x[3] = ln.kw)
    IN  IF nd.mode # "inline" /\ ln.act >= 0 /\ bs > 0 /\ s.log[bs][5] = ln.act
        THEN {"C06.blocking", "C17.mode"} ELSE {}

CheckDefault(P, T, sm, s, ln) ==
    LET n == ln.n
        kw == ln.kw
        cnt == Count(s.log, LAMBDA x : IsDF(x) /\ x[2] = n /\ x[3] = kw)
    IN  (IF T.amb THEN {}
         ELSE IF <<n, kw>> \in sm.dfl THEN (IF cnt > 0 THEN {"C12.default"} ELSE {})
              ELSE {"C12.default"})
        \cup StartC(s) \cup AfterCompleteC(s)

CheckEv(P, T, sm, s, ln) ==
    LET n == ln.n
        ce == CurExec(s.log, n)
    IN  LateC(s) \cup (IF s.ret # <<>> THEN {"C14.complete"} ELSE {}) \cup
        CASE ln.kind = "pipeline_start" -> IF Len(s.log) # 0 THEN {"C14.start"} ELSE {}
          [] ln.kind = "pipeline_complete" -> StartC(s) \cup AfterCompleteC(s)
          [] ln.kind = "node_start" ->
                StartC(s) \cup AfterCompleteC(s) \cup
                (LET lastev == LastIdx(s.log, LAMBDA x : IsEV(x) /\ x[3] = n)
                 IN IF lastev > 0 /\ s.log[lastev][2] = "node_start" THEN {"C14.pair"} ELSE {})
          [] ln.kind = "node_complete" ->
                StartC(s) \cup AfterCompleteC(s) \cup
                (IF ~ce.open THEN {"C14.pair"}
                 ELSE LET c   == Count(ce.ents, LAMBDA x : IsEV(x) /\ x[2] = "node_complete")
                          bes == SelectSeq(ce.ents, IsBE)
                          hasdf == Count(ce.ents, IsDF) > 0
                      IN  IF Len(bes) < c + 1
                          THEN (IF ln.err = <<"noerr">> /\ hasdf THEN {} ELSE {"C14.pair"})
                          ELSE LET o == bes[c + 1][4]
                               IN  IF o[1] \in {"ok", "rec"}
                                   THEN (IF ln.err = <<"noerr">> THEN {} ELSE {"C14.final"})
                                   ELSE (IF ln.err = o[2] \/ (ln.err = <<"noerr">> /\ hasdf)
                                         THEN {} ELSE {"C14.final"}))

(* a collaborator object (event manager, artifact store) that has already served another run: whatever it keeps on
   itself is state one run leaves behind for the next / shares with an overlapping one *)
SharedC(T, ln) == IF "shared" \in DOMAIN ln /\ ln.shared THEN (IF T.overlap THEN {"C08.solo"} ELSE {"C07.fresh"}) ELSE {}

CheckSave(P, T, sm, s, ln) ==
    SharedC(T, ln) \cup LateC(s) \cup StartC(s) \cup AfterCompleteC(s) \cup
    (IF ln.v[1] = "recmark" THEN {"C19.marker"} ELSE {}) \cup
    (IF ln.v[1] = "errval" THEN {"C19.failure"} ELSE {})

Depth(P, n) == P.depth[n]
CheckQuiescent(P, T, S, ln) ==
    (IF ln.gates = 0 /\ ln.timers = 0 /\ Len(ln.pending) > 0
     THEN Feat(P, {"C02.stuck", "C01.stuck"}, {"C09.stuck"}, {"C10.stuck"}, {"C11.stuck"}) ELSE {})
    \cup
    (* a node is completed when its task is: body finished, completion announced, result saved, and no collaborator
       call of it still suspended; a node counts as started from its node_start announcement on *)
    (IF P.plain /\ Len(ln.pending) > 0
     THEN UNION {LET s == S[ln.pending[i]]
                     susp(m) == "collab_nodes" \in DOMAIN ln /\ \E j \in 1..Len(ln.collab_nodes) : ln.collab_nodes[j] = m
                     fin(m) == /\ \E j \in 1..Len(s.log) : IsBE(s.log[j]) /\ s.log[j][2] = m /\ s.log[j][4][1] = "ok"
                               /\ \E j \in 1..Len(s.log) : IsSV(s.log[j]) /\ s.log[j][2] = m
                               /\ ~susp(m)
                     sta(m) == \E j \in 1..Len(s.log) : (IsBS(s.log[j]) /\ s.log[j][2] = m)
                                                        \/ (IsEV(s.log[j]) /\ s.log[j][2] = "node_start" /\ s.log[j][3] = m)
                 IN  IF (ln.collab_gates = 0 \/ "collab_nodes" \in DOMAIN ln) /\ ~susp("-") /\ \E n \in DOMAIN P.depth :
                            /\ P.depth[n] >= 0
                            /\ \A m \in DOMAIN P.depth : (P.depth[m] >= 0 /\ P.depth[m] < P.depth[n]) => fin(m)
                            /\ ~sta(n)
                     THEN {"C06.conc"} ELSE {}
                 : i \in 1..Len(ln.pending)}
     ELSE {})

MixedKinds(sr, k1, k2) == /\ sr[1] = "F" /\ {k1, k2} = {"error", "raised"}
                          /\ \E c \in sr[2] : IsBaseTok(c)
                          /\ \E c \in sr[2] : ~IsBaseTok(c)
ErrMatches(v, S) == v \in S \/ (v[1] = "dag_error" /\ \E c \in S : c[1] = "unknown_label")

CheckReturn(P, T, sm, s, ln) ==
    LET kind == ln.kind
        v == ln.v
        sr == sm.r
        prodn(n) == SelectSeq(s.log, LAMBDA x : (IsBE(x) /\ x[2] = n /\ x[4][1] = "ok") \/ (IsDF(x) /\ x[2] = n))
        lastprod(n) == LET q == prodn(n) IN LET x == q[Len(q)] IN IF IsBE(x) THEN x[4][2] ELSE x[4]
        savesn(n) == SelectSeq(s.log, LAMBDA x : IsSV(x) /\ x[2] = n)
        (* the engine cancelled n's task inside a suspended collaborator call after n's last production: the
           completion path of n (store, save, notify) was cut short, no artifact is due *)
        (* the node's final value reached a consumer or is the result of the run *)
        consumed(n) == LET lv == lastprod(n)
                       IN  v = lv \/ \E j \in 1..Len(s.log) : IsBS(s.log[j]) /\ \E i \in 1..Len(s.log[j][3]) : s.log[j][3][i][2] = lv
        cutshort(n) == LET lp == LastIdx(s.log, LAMBDA x : (IsBE(x) /\ x[2] = n /\ x[4][1] = "ok") \/ (IsDF(x) /\ x[2] = n))
                       IN  \E j \in 1..Len(s.log) : j > lp /\ s.log[j][1] = "CUT" /\ s.log[j][2] = n
        lastev == LastIdx(s.log, IsEV)
        npc == Count(s.log, LAMBDA x : IsEV(x) /\ x[2] = "pipeline_complete")
    IN
    IF s.cancelled
    THEN (IF kind = "cancelled" THEN {} ELSE {"C13.cancel"})
    ELSE IF T.poolmissing
    THEN (* a pool the program needs is not registered / shut down: error result before any body is invoked *)
         (IF kind = "error" /\ v[1] = "exc" /\ Count(s.log, IsBS) = 0 THEN {} ELSE {"C17.pool"})
    ELSE
      (IF kind = "cancelled" \/ v = <<"cancelled">> THEN {"C05.noartefact"} ELSE {})
      \cup
      (* (with a collaborator that raises - T.faulty - its exception is a legitimate outcome, also for chart.run itself
          when on_pipeline_start raises) *)
      (IF kind = "raised" /\ ~IsBaseTok(v) /\ ~T.faulty THEN {"C05.noraise"} ELSE {})
      \cup
      (IF kind = "error" /\ v[1] \in {"exc", "err_copy"} /\ ~T.faulty THEN {"C05.noartefact"} ELSE {})
      \cup
      (* with or without a reference value: the returned value was not computed from a None that no node returns *)
      (IF kind = "value" /\ ~T.faulty /\ ~PlansNone(P, ln.r) /\ HasNoneLeaf(v) THEN {"C01.value"} ELSE {})
      \cup
      (IF T.amb THEN {}
       ELSE CASE sr[1] = "V" ->
                   IF kind = "value" THEN (IF v = sr[2] THEN {} ELSE {"C01.value"})
                   ELSE {"C05.verdict", "C01.error"} \cup (IF P.has_oneof THEN {"C10.contain"} ELSE {})
                        (* a sub-graph that ran out of iterations fails the run although the semantics has a value
                           (a default, or an enclosing one-of with an alternative) *)
                        \cup (IF kind = "error" /\ v[1] = "rec_noresult" THEN {"C11.exhaust"} ELSE {})
                        (* a label that has a case was reported as matching none *)
                        \cup (IF kind = "error" /\ v = <<"dag_error", "SwitchCaseLabelNotFoundError">> THEN {"C09.route"} ELSE {})
              [] sr[1] = "F" ->
                   LET base == {c \in sr[2] : IsBaseTok(c)}
                   IN  IF kind = "value" THEN {"C05.verdict", "C01.value"}
                       ELSE IF kind = "error"
                            THEN (IF ErrMatches(v, sr[2] \ base) THEN {} ELSE {"C05.cause", "C01.error"})
                            ELSE IF kind = "raised" THEN (IF v \in base THEN {} ELSE {"C05.cause"})
                            ELSE {}
              [] OTHER -> {})
      \cup
      (* schedule independence: every execution of this program gave run r the same outcome so far *)
      (* (when required nodes fail concurrently, some with an Exception and some with a BaseException, which failure
          the engine meets first decides between an error result and a raise: the property admits every cause) *)
      (IF ~T.faulty /\ \E h \in hist : h[1] = ln.r /\ ((h[2] # kind /\ ~MixedKinds(sr, h[2], kind)) \/ (kind = "value" /\ h[3] # v)
                                         \/ (kind = "error" /\ ~T.amb /\ sr[1] = "F" /\ Cardinality(sr[2]) = 1 /\ h[3] # v))
       THEN {"C01.det"} ELSE {})
      \cup
      (IF s.fresh # <<>> /\ ((s.fresh[1] # kind /\ ~MixedKinds(sr, s.fresh[1], kind)) \/ (kind = "value" /\ s.fresh[2] # v))
       THEN (IF T.overlap THEN {"C08.solo"} ELSE {"C07.fresh"}) ELSE {})
      \cup
      (* retry policy, without the reference semantics: the run failed with the exception of a node that still had
         attempts left for exactly that kind of exception (or with an artefact of the engine while such a node was
         waiting for its next attempt) *)
      (IF kind = "error" /\ ~T.faulty
       THEN UNION {LET nd == Node(P, n)
                       ce == CurExec(s.log, n)
                       bes == SelectSeq(ce.ents, IsBE)
                       last == bes[Len(bes)]
                   IN  IF nd.attempts > 1 /\ Len(bes) > 0 /\ last[4][1] = "raise" /\ Matches(last[4][2][5], nd.excs)
                          /\ Count(ce.ents, IsBS) < nd.attempts /\ (v = last[4][2] \/ v[1] = "exc")
                       THEN {"C12.count"} ELSE {}
                   : n \in {P.ids[i] : i \in 1..Len(P.ids)}}
       ELSE {})
      \cup
      (* chart.run raised the exception of a badly behaved event manager (not of the recording one): the recording
         manager, which never raises, has still seen the start and exactly one completion of the run *)
      (IF kind = "raised" /\ T.faulty /\ v[1] = "exc"
       THEN (IF Len(s.log) > 0 /\ IsEV(s.log[1]) /\ s.log[1][2] = "pipeline_start"
                /\ (npc = 1 \/ (npc = 0 /\ Len(s.log) = 1))      \* (nothing ran when a manager failed in on_pipeline_start)
             THEN {} ELSE {"C14.complete"})
       ELSE {})
      \cup
      (* lifecycle: exactly one pipeline_complete, last, carrying the returned result *)
      (IF kind \in {"value", "error"}
       THEN (IF npc = 1 /\ lastev > 0 /\ s.log[lastev][2] = "pipeline_complete"
                /\ lastev = LastIdx(s.log, LAMBDA x : x[1] \in {"BS", "EV", "SV", "DF"})
                /\ s.log[lastev][5] = <<kind, v>>
             THEN {} ELSE {"C14.complete"})
       ELSE {})
      \cup
      (* artifact store: exactly one save per node that produced a value, of its final value *)
      (IF kind = "value"
       THEN UNION {IF Len(prodn(n)) = 0
                   THEN (IF Len(savesn(n)) = 0 THEN {} ELSE {"C19.value"})
                   ELSE IF Len(savesn(n)) = 0 /\ cutshort(n) /\ ~consumed(n) THEN {}
                   ELSE (IF Len(savesn(n)) = 0 THEN {"C19.missing"}
                         ELSE IF Len(savesn(n)) # 1
                         THEN (IF \E i \in 1..Len(P.rec_inside) : P.rec_inside[i] = n
                               THEN {"C19.once_rec"} ELSE {"C19.once"})
                         ELSE IF savesn(n)[1][3] # lastprod(n) THEN {"C19.value"} ELSE {})
                   : n \in {P.ids[i] : i \in 1..Len(P.ids)}}
       ELSE {})
      \cup
      (* ... and what a consumer received from a node (plain / recurrent parameters) is what was saved for that node *)
      (IF kind = "value"
       THEN UNION {LET b == s.log[j]
                       nd == Node(P, b[2])
                   IN  UNION {LET src == nd.params[q].node
                                  got == {b[3][i][2] : i \in {x \in 1..Len(b[3]) : b[3][x][1] = nd.params[q].kw}}
                              IN  IF nd.params[q].kind \in {"input", "rec"} /\ src # P.input
                                     /\ \E gt \in got : ~\E x \in 1..Len(s.log) : IsSV(s.log[x]) /\ s.log[x][2] = src /\ s.log[x][3] = gt
                                  THEN {"C19.value"} ELSE {}
                              : q \in 1..Len(nd.params)}
                   : j \in {x \in 1..Len(s.log) : IsBS(s.log[x])}}
       ELSE {})
      \cup
      (* retry policy: every required invocation happened exactly the configured number of times *)
      (IF kind = "value" /\ ~T.amb /\ sr[1] = "V"
       THEN UNION {LET c == Count(s.log, LAMBDA y : IsBS(y) /\ y[2] = x[1] /\ y[3] = x[2])
                   IN  IF c = x[3] THEN {}
                       ELSE IF c > x[3] THEN {"C04.once"} \cup (IF Node(P, x[1]).attempts > 1 THEN {"C12.count"} ELSE {})
                       ELSE (* a required invocation is missing *)
                            (IF Node(P, x[1]).attempts > 1 THEN {"C12.count"} ELSE {})
                            \cup (IF \E k \in 1..Len(P.rec_inside) : P.rec_inside[k] = x[1] THEN {"C11.paths"} ELSE {})
                            \cup (IF Node(P, x[1]).attempts <= 1 /\ ~(\E k \in 1..Len(P.rec_inside) : P.rec_inside[k] = x[1])
                                  THEN {"C03.final"} ELSE {})
                   : x \in sm.must}
       ELSE {})

(* a save that was started and then cancelled by the engine when the run ended (the store was still busy) never
   completed: if the node's value was consumed - it flowed into the returned result - the artifact is missing *)
SaveCut(P, s) ==
    IF s.ret = <<>> \/ s.ret[1] # "value" THEN {}
    ELSE UNION {LET sv == LastIdx(s.log, LAMBDA x : IsSV(x) /\ x[2] = n)
                    cut == \E j \in 1..Len(s.log) : j > sv /\ s.log[j][1] = "CUT" /\ s.log[j][2] = n /\ s.log[j][3] = "save"
                    lv == IF sv > 0 THEN s.log[sv][3] ELSE <<"none">>
                    used == s.ret[2] = lv \/ \E j \in 1..Len(s.log) : IsBS(s.log[j]) /\ \E i \in 1..Len(s.log[j][3]) : s.log[j][3][i][2] = lv
                IN  IF sv > 0 /\ cut /\ used THEN {"C19.missing"} ELSE {}
                : n \in {P.ids[i] : i \in 1..Len(P.ids)}}

CheckPostRun(P, T, S, ln) ==
    (IF ~ln.stuck /\ (ln.live > 0 \/ ln.drain_steps > 50 + 20 * Len(P.ids)) THEN {"C13.drain"} ELSE {})
    \cup (IF "pool_left" \in DOMAIN ln /\ Len(ln.pool_left) > 0 /\ ~ln.stuck THEN {"C13.quiet"} ELSE {})
    \cup (IF ln.stuck THEN {"C02.stuck"} ELSE {})
    \cup (IF ln.truncated THEN {"C02.livelock"} ELSE {})
    \cup (IF T.faulty THEN {} ELSE UNION {SaveCut(P, S[r]) : r \in DOMAIN S})

CheckSnap(P, T, s, ln) ==
    (IF g.snap # <<>> /\ g.snap.graph # ln.graph THEN {"C07.graph"} ELSE {})
    \cup (IF g.snap # <<>> /\ g.snap.classes # ln.classes THEN {"C07.classes"} ELSE {})
    \cup (IF ln.when = "after" /\ s.snapin # ln.input THEN {"C07.input"} ELSE {})

(* every run that is not given a pipeline id gets its own: the id is the key under which collaborators (the
   file-system artifact store, event managers) keep per-run data, so two runs sharing one id interfere there *)
PkOf(ln) == IF "pk" \in DOMAIN ln THEN ln.pk ELSE 0
CheckPid(T, S, ln) ==
    IF PkOf(ln) > 0 /\ \E r \in DOMAIN S : r # ln.r /\ S[r].pk = PkOf(ln)
    THEN (IF T.overlap THEN {"C08.pid"} ELSE {"C07.pid"}) ELSE {}

(***************************************************************************)
(* State update per line                                                   *)
(***************************************************************************)
Upd(S, r, f(_)) == [S EXCEPT ![r] = f(S[r])]
AppendLog(s, x) == [s EXCEPT !.log = Append(@, x)]

ApplyLine(S, ln) ==
    CASE ln.e = "BodyStart" -> Upd(S, ln.r, LAMBDA s : AppendLog(s, <<"BS", ln.n, ln.kw, ln.t, ln.act>>))
      [] ln.e = "BodyEnd"   -> Upd(S, ln.r, LAMBDA s : AppendLog(s, <<"BE", ln.n, ln.kw, ln.out, ln.t>>))
      [] ln.e = "Default"   -> Upd(S, ln.r, LAMBDA s : AppendLog(s, <<"DF", ln.n, ln.kw, ln.out>>))
      [] ln.e = "Save"      -> Upd(S, ln.r, LAMBDA s : AppendLog(s, <<"SV", ln.n, ln.v>>))
      [] ln.e = "Cut"       -> Upd(S, ln.r, LAMBDA s : AppendLog(s, <<"CUT", ln.n, ln.what>>))
      [] ln.e = "Ev" ->
            Upd(S, ln.r, LAMBDA s :
                LET ce == CurExec(s.log, ln.n)
                    pr == SelectSeq(ce.ents, LAMBDA x : (IsBE(x) /\ x[4][1] = "ok") \/ IsDF(x))
                    ann == IF ln.kind = "node_complete" /\ ln.err = <<"noerr">> /\ Len(pr) > 0
                           THEN LET x == pr[Len(pr)] IN {IF IsBE(x) THEN x[4][2] ELSE x[4]}
                           ELSE {}
                IN [AppendLog(s, <<"EV", ln.kind, ln.n, ln.err, ln.res>>) EXCEPT !.announced = @ \cup ann])
      [] ln.e = "RunReturn" -> Upd(S, ln.r, LAMBDA s : [s EXCEPT !.ret = <<ln.kind, ln.v>>, !.pk = PkOf(ln)])
      [] ln.e = "Cancel"    -> Upd(S, ln.r, LAMBDA s : [s EXCEPT !.cancelled = TRUE])
      [] ln.e = "Fresh"     -> Upd(S, ln.r, LAMBDA s : [s EXCEPT !.fresh = <<ln.kind, ln.v>>])
      [] ln.e = "Snap"      -> IF ln.when = "before"
                               THEN Upd(S, ln.r, LAMBDA s : [s EXCEPT !.snapin = ln.input])
                               ELSE S
      [] OTHER -> S

CheckLine(P, T, S, ln) ==
    CASE ln.e = "BodyStart" -> CheckBodyStart(P, T, sem[ln.r], S[ln.r], ln)
      [] ln.e = "BodyEnd"   -> CheckBodyEnd(P, T, sem[ln.r], S[ln.r], ln)
      [] ln.e = "Default"   -> CheckDefault(P, T, sem[ln.r], S[ln.r], ln)
      [] ln.e = "Ev"        -> CheckEv(P, T, sem[ln.r], S[ln.r], ln) \cup SharedC(T, ln)
      [] ln.e = "Save"      -> CheckSave(P, T, sem[ln.r], S[ln.r], ln)
      [] ln.e = "Quiescent" -> CheckQuiescent(P, T, S, ln)
      [] ln.e = "RunReturn" -> CheckReturn(P, T, sem[ln.r], S[ln.r], ln) \cup CheckPid(T, S, ln)
      [] ln.e = "PostRun"   -> CheckPostRun(P, T, S, ln)
      (* time.sleep on the loop thread: every task of every run stands still for ln.ms *)
      [] ln.e = "Block"     -> IF ln.ms > 0 THEN {"C06.blocking"} ELSE {}
      [] ln.e = "Snap"      -> CheckSnap(P, T, S[ln.r], ln)
      [] OTHER -> {}

(* C14 speaks about event managers that do not raise: in an execution where an event callback is made to raise, what
   the managers observe afterwards (e.g. a second node_complete reporting the callback's own exception) is not
   constrained by it *)
Excused(T) == IF "evfaulty" \in DOMAIN T /\ T.evfaulty
              THEN {"C14.before", "C14.complete", "C14.final", "C14.pair", "C14.start"} ELSE {}

Init ==
    /\ t = 1 /\ l = 1 /\ viol = {} /\ out = <<>> /\ done = FALSE /\ g = InitG /\ hist = {}
    /\ st = IF NT = 0 THEN <<>> ELSE InitSt(Traces[1])
    /\ sem = IF NT = 0 THEN <<>> ELSE SemOf(Traces[1])

Consume ==
    /\ t <= NT /\ l <= Len(Traces[t].lines)
    /\ LET T == Traces[t]
           P == Progs[T.pi]
           ln == T.lines[l]
       IN  /\ viol' = viol \cup {<<c, l>> : c \in CheckLine(P, T, st, ln) \ Excused(T)}
           /\ st' = ApplyLine(st, ln)
           /\ g' = IF ln.e = "Snap" /\ g.snap = <<>>
                   THEN [g EXCEPT !.snap = [graph |-> ln.graph, classes |-> ln.classes]]
                   ELSE g
           /\ hist' = IF ln.e = "RunReturn" /\ ~st[ln.r].cancelled /\ ~T.faulty
                      THEN hist \cup {<<ln.r, ln.kind, ln.v>>} ELSE hist
    /\ l' = l + 1
    /\ UNCHANGED <<t, sem, out, done>>

EndTrace ==
    /\ t <= NT /\ l > Len(Traces[t].lines)
    /\ out' = Append(out, [id |-> Traces[t].id, viol |-> SetToSeq(viol)])
    /\ t' = t + 1 /\ l' = 1 /\ viol' = {} /\ g' = InitG
    /\ IF t + 1 <= NT
       THEN /\ st' = InitSt(Traces[t + 1])
            /\ sem' = IF Traces[t + 1].pi = Traces[t].pi THEN sem ELSE SemOf(Traces[t + 1])
       ELSE /\ st' = <<>> /\ sem' = <<>>
    /\ hist' = IF t + 1 <= NT /\ Traces[t + 1].pi = Traces[t].pi THEN hist ELSE {}
    /\ UNCHANGED done

Finish ==
    /\ t > NT /\ ~done
    /\ JsonSerialize(IOEnv.OUT_FILE, out)
    /\ done' = TRUE
    /\ UNCHANGED <<t, l, st, g, viol, sem, out, hist>>

Next == Consume \/ EndTrace \/ Finish
Spec == Init /\ [][Next]_vars

(* machinery self-check: every trace was consumed to its end and the verdict file written *)
AllConsumed == done => (t = NT + 1 /\ Len(out) = NT)
=============================================================================
