--------------------------- MODULE ArtifactStore ---------------------------
(***************************************************************************)
(* The filesystem artifact store as a write-once map keyed exactly by       *)
(* (model name, pipeline id, node id)  (property C18, DESIGN 4.5).           *)
(*                                                                         *)
(* Values are tokens.  A value may be unserialisable in a format            *)
(* (Serialisable is a constant predicate given as a set of <<val, fmt>>).   *)
(* Every operation is one atomic action that also records its reply in      *)
(* `reply`, so that a recorded history of the real store can be matched     *)
(* action by action (ArtifactStoreTrace.tla).                               *)
(***************************************************************************)
EXTENDS Naturals, Sequences, FiniteSets, TLC

CONSTANTS Keys, Vals, Fmts, Serialisable

VARIABLES store,   \* partial function Keys -> [fmt, val]
          reply    \* reply of the last operation
vars == <<store, reply>>

Init == store = <<>> /\ reply = <<"none">>

SaveReply(st, k, v, f) ==
    IF k \in DOMAIN st THEN <<"exists">>
    ELSE IF <<v, f>> \in Serialisable THEN <<"ok">> ELSE <<"failed">>

SaveStore(st, k, v, f) ==
    IF k \notin DOMAIN st /\ <<v, f>> \in Serialisable THEN (k :> [fmt |-> f, val |-> v]) @@ st ELSE st

LoadReply(st, k) == IF k \in DOMAIN st THEN <<"value", st[k].val>> ELSE <<"missing">>

Save(k, v, f) == store' = SaveStore(store, k, v, f) /\ reply' = SaveReply(store, k, v, f)
Load(k)       == store' = store /\ reply' = LoadReply(store, k)

Next == (\E k \in Keys, v \in Vals, f \in Fmts : Save(k, v, f)) \/ (\E k \in Keys : Load(k))
Spec == Init /\ [][Next]_vars

(* ---- properties (checked exhaustively by TLC on a small instance) ---- *)
TypeOK == \A k \in DOMAIN store : k \in Keys /\ store[k].val \in Vals /\ store[k].fmt \in Fmts

(* a saved artifact is never lost or altered: write-once *)
WriteOnce == [][\A k \in DOMAIN store : k \in DOMAIN store' /\ store'[k] = store[k]]_vars

(* an operation touches at most one key *)
KeyIsolation == [][Cardinality({k \in Keys : (k \in DOMAIN store') # (k \in DOMAIN store)}) <= 1]_vars

(* only serialisable values are ever stored; a failed save leaves the key unsaved *)
OnlySerialisable == \A k \in DOMAIN store : <<store[k].val, store[k].fmt>> \in Serialisable
FailedLeavesUnsaved == [][reply' = <<"failed">> => store' = store]_vars
ExistsLeavesIntact  == [][reply' = <<"exists">> => store' = store]_vars

(* what load returns is what was saved under exactly that key *)
LoadFaithful == reply[1] = "value" => \E k \in DOMAIN store : store[k].val = reply[2]
=============================================================================
