------------------------------ MODULE Engine2 ------------------------------
(***************************************************************************)
(* Several runs of ONE chart on ONE event loop (properties C07, C08).      *)
(*                                                                         *)
(* Each run has its own run manager: a complete Engine state (Engine!InitSt)*)
(* - storage, conditions, events, tasks, gates.  What the runs share is the *)
(* loop: one FIFO ready queue whose entries are <<run, task>>, and the DAG  *)
(* (read only).  `StartRun(r)` is the caller starting the next run: at any  *)
(* step boundary (G.overlap, C08) or only once the previous run has         *)
(* returned, possibly while its cancelled tasks are still unwinding (C07).  *)
(*                                                                         *)
(* The per-manager transition function is Engine!Resume, unchanged: a step  *)
(* of task t of run r is Resume on m[r] with an empty local ready queue;    *)
(* whatever it appended is moved, tagged with r, to the shared queue.       *)
(* Instances use pipelines without retry delays (one shared timer heap is   *)
(* not modelled).                                                          *)
(***************************************************************************)
EXTENDS Engine

VARIABLES sys     \* [m : run -> Engine state, ready : Seq(<<run, task>>), started : set of runs]
vars2 == <<sys, act, st>>

NRuns == Len(G.runs)
Tag(r, q) == [i \in 1..Len(q) |-> <<r, q[i]>>]

Init2 ==
    /\ st = 0
    /\ act = <<"init">>
    /\ sys = [m |-> [r \in 1..NRuns |-> [InitSt(r) EXCEPT !.ready = <<>>]],
              ready |-> << <<1, 1>> >>, started |-> {1}]

Pending(r) == sys.m[r].outcome = <<"pending">>
Running2 == \E r \in 1..NRuns : r \notin sys.started \/ Pending(r)

(* one loop step: the head of the shared queue *)
Step2 ==
    /\ Len(sys.ready) > 0
    /\ LET r == sys.ready[1][1]
           t == sys.ready[1][2]
           S1 == Resume(sys.m[r], t)
       IN  /\ sys' = [sys EXCEPT !.m[r] = [S1 EXCEPT !.ready = <<>>], !.ready = Tail(@) \o Tag(r, S1.ready)]
           /\ act' = <<"step", r, IF t < 0 THEN "timer" ELSE sys.m[r].tasks[t].name>>
    /\ UNCHANGED st

Fire2(r, t) ==
    /\ t \in sys.m[r].gates
    /\ LET S == sys.m[r]
           S1 == Enqueue([S EXCEPT !.gates = @ \ {t}, !.tasks[t].status = "ready"], t)
       IN  /\ sys' = [sys EXCEPT !.m[r] = [S1 EXCEPT !.ready = <<>>], !.ready = @ \o Tag(r, S1.ready)]
           /\ act' = <<"fire", r, IF S.tasks[t].wait[1] = "cgate" THEN S.tasks[t].wait[2] \o ":" \o S.tasks[t].wait[3]
                                  ELSE S.tasks[t].name>>
    /\ UNCHANGED st

StartRun(r) ==
    /\ r \notin sys.started /\ r - 1 \in sys.started
    /\ G.overlap \/ ~Pending(r - 1)
    /\ sys' = [sys EXCEPT !.started = @ \cup {r}, !.ready = Append(@, <<r, 1>>)]
    /\ act' = <<"start", r>>
    /\ UNCHANGED st

Next2 == (Running2 /\ Step2) \/ (\E r \in sys.started : Pending(r) /\ \E t \in sys.m[r].gates : Fire2(r, t))
         \/ (\E r \in 1..NRuns : StartRun(r))
Spec2 == Init2 /\ [][Next2]_vars2

(* C08 / C07 at model level: every run returns what it returns alone (the reference semantics of ITS input and plan),
   whatever the other runs do *)
SoloOutcome ==
    \A r \in sys.started :
        Pending(r) \/ G.prog.amb \/
        (IF SemOfRun(r)[1] = "V" THEN sys.m[r].outcome[1] = "value" /\ sys.m[r].outcome[2] # Absent /\ sys.m[r].outcome[2][1] # "err"
         ELSE sys.m[r].outcome[1] = "error")
CanStart == \E r \in 1..NRuns : r \notin sys.started /\ r - 1 \in sys.started /\ (G.overlap \/ ~Pending(r - 1))
NoStuck2 == ~(Running2 /\ Len(sys.ready) = 0 /\ ~CanStart /\ \A r \in sys.started : ~Pending(r) \/ sys.m[r].gates = {})
CleanStarts2 == \A r \in 1..NRuns : sys.m[r].badstart = {}

View2 == sys
Export2 == PrintT(<<"EDGE", ToJson([s |-> sys, a |-> act', d |-> sys'])>>)
=============================================================================
