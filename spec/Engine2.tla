------------------------------ MODULE Engine2 ------------------------------
(***************************************************************************)
(* Several runs of ONE chart on ONE event loop (properties C07, C08).      *)
(*                                                                         *)
(* Each run has its own run manager: a complete Engine state (Engine!InitSt)*)
(* - storage, conditions, events, tasks, gates.  What the runs share is the *)
(* loop: one FIFO ready queue whose entries are <<run, task>>, and the DAG  *)
(* (read only).  `StartRun(r)` is the caller starting the next run: at any  *)
(* step boundary (G.overlap, C08) or only once the previous run has         *)
(* returned, possibly while its cancelled tasks are still unwinding (C07).  *)
(*                                                                         *)
(* The per-manager transition function is Engine!Resume, unchanged: a step  *)
(* of task t of run r is Resume on m[r] with an empty local ready queue;    *)
(* whatever it appended is moved, tagged with r, to the shared queue.       *)
(* Instances use pipelines without retry delays (one shared timer heap is   *)
(* not modelled).                                                          *)
(***************************************************************************)
EXTENDS Engine

VARIABLES sys     \* [m : run -> Engine state, ready : Seq(<<run, task>>), started : set of runs,
                  \*  tord : Seq(<<run, due, task>>) the shared timer heap in creation order]
vars2 == <<sys, act, st>>

NRuns == Len(G.runs)
Tag(r, q) == [i \in 1..Len(q) |-> <<r, q[i]>>]

Init2 ==
    /\ st = 0
    /\ act = <<"init">>
    /\ sys = [m |-> [r \in 1..NRuns |-> [InitSt(r) EXCEPT !.ready = <<>>]],
              ready |-> << <<1, 1>> >>, started |-> {1}, tord |-> <<>>]

(* the shared heap after run r's manager went from state `old` to `new`: its cancelled timers leave, its new ones
   are appended in the order the manager created them *)
SyncTimers(old, new, r, tord) ==
    LET kept == SelectSeq(tord, LAMBDA x : x[1] # r \/ \E i \in 1..Len(new.timers) : new.timers[i] = <<x[2], x[3]>>)
        added == SelectSeq(new.timers, LAMBDA y : ~\E i \in 1..Len(old.timers) : old.timers[i] = y)
    IN  kept \o [i \in 1..Len(added) |-> <<r, added[i][1], added[i][2]>>]

Pending(r) == sys.m[r].outcome = <<"pending">>
Running2 == \E r \in 1..NRuns : r \notin sys.started \/ Pending(r)

(* one loop step: the head of the shared queue *)
Step2 ==
    /\ Len(sys.ready) > 0
    /\ LET r == sys.ready[1][1]
           t == sys.ready[1][2]
           S1 == Resume(sys.m[r], t)
       IN  /\ sys' = [sys EXCEPT !.m[r] = [S1 EXCEPT !.ready = <<>>], !.ready = Tail(@) \o Tag(r, S1.ready),
                                 !.tord = SyncTimers(sys.m[r], S1, r, @)]
           /\ act' = <<"step", r, IF t < 0 THEN "timer" ELSE sys.m[r].tasks[t].name>>
    /\ UNCHANGED st

Fire2(r, t) ==
    /\ t \in sys.m[r].gates
    /\ LET S == sys.m[r]
           S1 == Enqueue([S EXCEPT !.gates = @ \ {t}, !.tasks[t].status = "ready"], t)
       IN  /\ sys' = [sys EXCEPT !.m[r] = [S1 EXCEPT !.ready = <<>>], !.ready = @ \o Tag(r, S1.ready)]
           /\ act' = <<"fire", r, IF S.tasks[t].wait[1] = "cgate" THEN S.tasks[t].wait[2] \o ":" \o S.tasks[t].wait[3]
                                  ELSE S.tasks[t].name>>
    /\ UNCHANGED st

(* the loop fires its earliest timer (ties: creation order) and the clock moves for every run *)
Tick2 ==
    /\ Running2 /\ Len(sys.tord) > 0
    /\ LET i == CHOOSE k \in 1..Len(sys.tord) :
                    \A j \in 1..Len(sys.tord) : sys.tord[k][2] < sys.tord[j][2] \/ (sys.tord[k][2] = sys.tord[j][2] /\ k <= j)
           e == sys.tord[i]
           r == e[1]
           now2 == Max2(sys.m[r].now, e[2])
       IN  /\ sys' = [sys EXCEPT !.m = [q \in 1..NRuns |->
                                            IF q = r THEN [sys.m[q] EXCEPT !.timers = SelectSeq(@, LAMBDA x : x # <<e[2], e[3]>>), !.now = now2]
                                            ELSE [sys.m[q] EXCEPT !.now = now2]],
                                 !.tord = SelectSeq(@, LAMBDA x : x # e),
                                 !.ready = Append(@, <<r, 0 - e[3]>>)]
           /\ act' = <<"tick", r>>
    /\ UNCHANGED st

StartRun(r) ==
    /\ r \notin sys.started /\ r - 1 \in sys.started
    /\ G.overlap \/ ~Pending(r - 1)
    /\ sys' = [sys EXCEPT !.started = @ \cup {r}, !.ready = Append(@, <<r, 1>>)]
    /\ act' = <<"start", r>>
    /\ UNCHANGED st

Next2 == (Running2 /\ Step2) \/ (\E r \in sys.started : Pending(r) /\ \E t \in sys.m[r].gates : Fire2(r, t))
         \/ (\E r \in 1..NRuns : StartRun(r)) \/ Tick2
Spec2 == Init2 /\ [][Next2]_vars2

(* C08 / C07 at model level: every run returns what it returns alone (the reference semantics of ITS input and plan),
   whatever the other runs do *)
SoloOutcome ==
    \A r \in sys.started :
        Pending(r) \/ G.prog.amb \/
        (IF SemOfRun(r)[1] = "V" THEN sys.m[r].outcome[1] = "value" /\ sys.m[r].outcome[2] # Absent /\ sys.m[r].outcome[2][1] # "err"
         ELSE sys.m[r].outcome[1] = "error")
CanStart == \E r \in 1..NRuns : r \notin sys.started /\ r - 1 \in sys.started /\ (G.overlap \/ ~Pending(r - 1))
NoStuck2 == ~(Running2 /\ Len(sys.ready) = 0 /\ ~CanStart /\ Len(sys.tord) = 0 /\ \A r \in sys.started : ~Pending(r) \/ sys.m[r].gates = {})
CleanStarts2 == \A r \in 1..NRuns : sys.m[r].badstart = {}

View2 == sys
Export2 == PrintT(<<"EDGE", ToJson([s |-> sys, a |-> act', d |-> sys'])>>)
=============================================================================
