------------------------------ MODULE Builder ------------------------------
(***************************************************************************)
(* build_dag as a translation (properties C15, C16; DESIGN 4.5).            *)
(*                                                                         *)
(* (i)  ExpectedGraph(D) / ExpectedVerdict(D): what the declared dependency *)
(*      relation, restricted to what the output needs, IS - independent of  *)
(*      any traversal.                                                     *)
(* (ii) The worklist algorithm of _traverse_breadth_first_to_dag as a state *)
(*      machine with a NONDETERMINISTIC pop, so TLC explores every          *)
(*      traversal order: on termination the graph equals ExpectedGraph(D),  *)
(*      every reachable class was validated exactly once, and a defective   *)
(*      declaration is rejected with the expected error in every order.     *)
(*                                                                         *)
(* A declaration set D (harness/decls.py):                                  *)
(*   D.decls : Seq(decl), D.order : id -> index, D.input, D.output          *)
(*   decl = [id, defect, marks]                                             *)
(*     defect in {"none","notclass","nobase","noprocess","unannotated_some",*)
(*                "unannotated_default" (no annotation but a default value),  *)
(*                "unannotated_all","generic1","generic2","generic_partial" *)
(*                (build_node rebinds only some generic inputs),            *)
(*                "rec_noproto",                                            *)
(*                "rec_noaddl"}                                             *)
(*   mark = [kw, kind, node, sw, cases, cands, start, max, name, head]      *)
(* Graph: nodes : set of ids; attrs : set of <<id, attr, value>>;           *)
(*        edges : set of <<u, v, kind, label>>, kind in kw|sw|case|plain;   *)
(*        map   : set of ids resolvable through node_map                    *)
(***************************************************************************)
EXTENDS Naturals, Sequences, FiniteSets, TLC

Decl(D, id) == D.decls[D.order[id]]
SeqToSet(s) == {s[i] : i \in 1..Len(s)}

Targets(m) ==
    CASE m.kind = "input"  -> {m.node}
      [] m.kind = "switch" -> {m.sw} \cup {m.cases[i][2] : i \in 1..Len(m.cases)}
      [] m.kind = "oneof"  -> SeqToSet(m.cands)
      [] m.kind = "rec"    -> {m.node}
      [] OTHER -> {}

DeclTargets(D, id) == UNION {Targets(Decl(D, id).marks[i]) : i \in 1..Len(Decl(D, id).marks)}
HasMarks(D, id) == Len(Decl(D, id).marks) > 0

(* what one visited node contributes to the graph *)
Contribution(D, id) ==
    LET d == Decl(D, id)
        M == {d.marks[i] : i \in 1..Len(d.marks)}
        implicit == ~HasMarks(D, id) /\ id # D.input
    IN  [nodes |-> (IF implicit THEN {D.input, id} ELSE {})
                   \cup UNION {CASE m.kind = "input"  -> {m.node, id}
                                 [] m.kind = "switch" -> {m.name, m.sw, id} \cup {m.cases[i][2] : i \in 1..Len(m.cases)}
                                 [] m.kind = "oneof"  -> {m.head, D.input, id} \cup SeqToSet(m.cands)
                                 [] m.kind = "rec"    -> {m.node, id}
                                 [] OTHER -> {} : m \in M},
         edges |-> (IF implicit THEN {<<D.input, id, "plain", "-">>} ELSE {})
                   \cup UNION {CASE m.kind = "input"  -> {<<m.node, id, "kw", m.kw>>}
                                 [] m.kind = "switch" -> {<<m.sw, m.name, "sw", "-">>, <<m.name, id, "kw", m.kw>>}
                                                         \cup {<<m.cases[i][2], m.name, "case", m.cases[i][1]>> : i \in 1..Len(m.cases)}
                                 [] m.kind = "oneof"  -> {<<D.input, m.head, "plain", "-">>, <<m.head, id, "kw", m.kw>>}
                                                         \cup {<<c, m.head, "plain", "-">> : c \in SeqToSet(m.cands)}
                                 [] m.kind = "rec"    -> {<<m.node, id, "kw", m.kw>>}
                                 [] OTHER -> {} : m \in M},
         attrs |-> UNION {CASE m.kind = "switch" -> {<<m.name, "is_switch", "true">>}
                            [] m.kind = "oneof"  -> {<<m.head, "is_oneof", "true">>, <<m.head, "oneof_nodes", m.cands>>}
                                                    \cup {<<c, "is_oneof_child", "true">> : c \in SeqToSet(m.cands)}
                            [] m.kind = "rec"    -> {<<m.node, "start_node", m.start>>, <<m.node, "max_iterations", m.max>>}
                            [] OTHER -> {} : m \in M},
         map   |-> {id} \cup DeclTargets(D, id),
         recs  |-> {<<m.start, m.node>> : m \in {x \in M : x.kind = "rec"}}]

(* ---- (i) the declarative answer ---- *)
RECURSIVE ReachFrom(_, _, _)
ReachFrom(D, frontier, seen) ==
    IF frontier = {} THEN seen
    ELSE LET n == CHOOSE x \in frontier : TRUE
             nxt == (DeclTargets(D, n) \cup (IF ~HasMarks(D, n) /\ n # D.input THEN {D.input} ELSE {})) \ seen
         IN  ReachFrom(D, (frontier \ {n}) \cup nxt, seen \cup nxt)
Reach(D) == ReachFrom(D, {D.output}, {D.output})

ExpectedGraph(D) ==
    LET R == Reach(D)
        C == [n \in R |-> Contribution(D, n)]
    IN  [nodes |-> R \cup UNION {C[n].nodes : n \in R},        \* one node per reachable declared class (also when it is alone)
         edges |-> UNION {C[n].edges : n \in R},
         attrs |-> UNION {C[n].attrs : n \in R},
         map   |-> {D.input} \cup UNION {C[n].map : n \in R}]

ErrorOf(defect) ==
    CASE defect = "notclass"         -> "IncorrectTypeClass"
      [] defect = "nobase"           -> "IncorrectBaseClass"
      [] defect = "noprocess"        -> "RunMethodExpectedError"
      [] defect = "unannotated_some" -> "UndefinedParamAnnotation"
      [] defect = "unannotated_kwargs" -> "UndefinedParamAnnotation"       \* a plain parameter NAMED kwargs is a parameter
      [] defect = "unannotated_default" -> "UndefinedParamAnnotation"      \* a default value does not replace the annotation
      [] defect = "unannotated_all"  -> "UndefinedAnnotation"
      [] defect = "generic1"         -> "NonRedefinedGenericTypeError"
      [] defect = "generic2"         -> "NonRedefinedGenericTypeError"
      [] defect = "generic_partial"  -> "NonRedefinedGenericTypeError"
      [] defect = "rec_noproto"      -> "IncorrectRecurrentMixinClass"
      [] defect = "rec_noaddl"       -> "IncorrectParamsRecurrentNode"
      [] OTHER -> "ok"

(* a traversal defect is detected when the node is visited; a recurrent defect when the node is the
   destination / start of a recurrent mark of some visited node *)
TraversalDefects == {"notclass", "nobase", "noprocess", "unannotated_some", "unannotated_kwargs", "unannotated_default", "unannotated_all", "generic1", "generic2",
                     "generic_partial"}
ExpectedVerdict(D) ==
    LET R == Reach(D)
        recs == UNION {Contribution(D, n).recs : n \in R}
        bad == {n \in R : Decl(D, n).defect \in TraversalDefects}
        badrec == {p \in recs : Decl(D, p[2]).defect = "rec_noproto"} \cup
                  {p \in recs : Decl(D, p[1]).defect = "rec_noaddl"}
        (* build_node checks its derivation when the node is DECLARED, reachable from the output or not *)
        declare == {i \in 1..Len(D.decls) : D.decls[i].defect = "generic_partial"}
    IN  IF declare # {} THEN {"NonRedefinedGenericTypeError"}
        ELSE IF bad # {} THEN {ErrorOf(Decl(D, n).defect) : n \in bad}
        ELSE IF \E p \in badrec : Decl(D, p[2]).defect = "rec_noproto"
             THEN {"IncorrectRecurrentMixinClass"}
             ELSE IF badrec # {} THEN {"IncorrectParamsRecurrentNode"} ELSE {"ok"}
=============================================================================
