------------------------------- MODULE Engine -------------------------------
(***************************************************************************)
(* Level E (DESIGN 3, 4.3, 4.4): the run manager AS IMPLEMENTED            *)
(* (ml_pipeline_engine/dag/manager.py, DAGRunConcurrentManager) on top of   *)
(* the asyncio scheduling substrate it relies on, for one run of one        *)
(* pipeline instance.                                                      *)
(*                                                                         *)
(* Unit of interleaving: one event-loop callback.  `Step` pops the head of  *)
(* the FIFO ready queue and runs that task to its next real suspension      *)
(* (Condition.wait with a false predicate, Event.wait, a node body,         *)
(* asyncio.sleep); everything between two suspensions is atomic, exactly as *)
(* on a single-threaded loop.  `Fire(g)` is the environment completing a    *)
(* node body; `Tick` the earliest timer.  These are the ONLY sources of     *)
(* nondeterminism (plus which failed task run() meets first).               *)
(*                                                                         *)
(* A task is a stack of frames mirroring the coroutine call stack:          *)
(*   run | dag (_run_dag) | node (_run_node/_execute_node/__execute_node)   *)
(*   | switch (_run_switch) | oneof (_run_oneof) | rec (_run_recurrent_...) *)
(* Each frame has a pc naming the await it is parked on.  Comments give the *)
(* manager.py construct each block transcribes.                             *)
(*                                                                         *)
(* Instance: G == JSON exported from the REAL build_dag result by           *)
(* harness/model.py (node iteration order, ordered adjacency, attributes,   *)
(* per-node descendant notification order as networkx produces it, plans).  *)
(***************************************************************************)
EXTENDS Dataflow, Json, IOUtils

G == JsonDeserialize(IOEnv.INSTANCE_FILE)
Nodes == {G.nodes[i] : i \in 1..Len(G.nodes)}
A(n) == G.attr[n]
SeqSet(s) == {s[i] : i \in 1..Len(s)}
Dests == {n \in Nodes : A(n).start # "-"}

VARIABLES
    st,     \* the whole manager + loop state (one record, see Init)
    act     \* label of the last action (for exporting the labelled state graph; hidden by the VIEW)
vars == <<st, act>>

(***************************************************************************)
(* Graph views                                                             *)
(***************************************************************************)
Succs(n) == SeqSet(G.succ[n])
HasEdge(u, v) == v \in Succs(u)
Edge(u, v) == G.edge[u][v]
IsCaseEdge(u, v) == Edge(u, v).cs # "-"
(* the reduced view of _get_reduced_dag: case_branch edges dropped; a one-of child is visible only in the subgraph
   built to run it, i.e. as the destination of a dag (it belongs to no other scope) - unless it is also an ordinary
   dependency of some node that this dag can see (a successor that is not a one-of head, over an edge that is not a case
   edge, itself visible): then it is an ordinary node of the dag *)
(* the destination needs n as an ordinary dependency: a way from n to dest that uses neither a case edge (a case is run
   only if it is selected) nor the edge from a one-of child to its head (a child is run only if the one-of tries it) *)
RECURSIVE Needed(_, _)
Needed(n, dest) == n = dest \/ \E v \in Succs(n) : ~IsCaseEdge(n, v) /\ ~(A(n).is_child /\ A(v).is_head) /\ Needed(v, dest)
VisNode(n, oneof, dest) == ~A(n).is_child \/ n = dest \/ Needed(n, dest)
VEdge(u, v, filtered, oneof, dest) ==
    HasEdge(u, v) /\ (~filtered \/ (~IsCaseEdge(u, v) /\ VisNode(u, oneof, dest) /\ VisNode(v, oneof, dest)))

RECURSIVE ReachFwd(_, _, _, _, _)
ReachFwd(front, seen, filtered, oneof, dest) ==
    LET nxt == {v \in Nodes : \E u \in front : VEdge(u, v, filtered, oneof, dest)} \ seen
    IN  IF nxt = {} THEN seen ELSE ReachFwd(nxt, seen \cup nxt, filtered, oneof, dest)
RECURSIVE ReachBwd(_, _, _, _, _)
ReachBwd(front, seen, filtered, oneof, dest) ==
    LET nxt == {u \in Nodes : \E v \in front : VEdge(u, v, filtered, oneof, dest)} \ seen
    IN  IF nxt = {} THEN seen ELSE ReachBwd(nxt, seen \cup nxt, filtered, oneof, dest)

(* get_connected_subgraph: the nodes on simple paths src -> dst (in a DAG: reachable from src and reaching dst) *)
Between(src, dst, filtered, oneof) ==
    IF src = dst THEN {src}
    ELSE LET f == ReachFwd({src}, {src}, filtered, oneof, dst)
             b == ReachBwd({dst}, {dst}, filtered, oneof, dst)
         IN  IF dst \in f THEN f \cap b ELSE {}

(* a dag object *)
MkDag(src, dst, oneof, nested, rec, filtered) ==
    [nodes |-> Between(src, dst, filtered, oneof), src |-> src, dest |-> dst,
     oneof |-> oneof, nested |-> nested, rec |-> rec, filtered |-> filtered]
DEdge(D, u, v) == u \in D.nodes /\ v \in D.nodes /\ VEdge(u, v, D.filtered, D.oneof, D.dest)
DPreds(D, n) == {u \in D.nodes : DEdge(D, u, n)}

(* nx.topological_sort of a view = Kahn generations; order inside a generation as networkx produces it *)
RECURSIVE KahnGen(_, _, _, _)
KahnGen(D, gen, indeg, acc) ==
    IF Len(gen) = 0 THEN acc
    ELSE LET RECURSIVE Walk(_, _, _, _)
             (* iterate nodes of this generation, and for each its successors in adjacency order *)
             Walk(i, j, deg, nxt) ==
                 IF i > Len(gen) THEN <<deg, nxt>>
                 ELSE LET u == gen[i]
                          ss == G.succ[u]
                      IN  IF j > Len(ss) THEN Walk(i + 1, 1, deg, nxt)
                          ELSE LET v == ss[j]
                               IN  IF DEdge(D, u, v)
                                   THEN LET d2 == [deg EXCEPT ![v] = @ - 1]
                                        IN  Walk(i, j + 1, d2, IF d2[v] = 0 THEN Append(nxt, v) ELSE nxt)
                                   ELSE Walk(i, j + 1, deg, nxt)
             w == Walk(1, 1, indeg, <<>>)
         IN  KahnGen(D, w[2], w[1], acc \o gen)
TopoOrder(D) ==
    LET indeg == [n \in Nodes |-> Cardinality(DPreds(D, n))]
        first == SelectSeq(G.nodes, LAMBDA n : n \in D.nodes /\ indeg[n] = 0)
    IN  KahnGen(D, first, indeg, <<>>)

(* __get_descendants: first-line descendants in the order networkx's set yields them, each switch among them
   followed (at the end) by its own descendants *)
RECURSIVE Descendants(_)
Descendants(n) ==
    LET d == G.desc[n]
        RECURSIVE Ext(_, _)
        Ext(i, acc) == IF i > Len(d) THEN acc
                       ELSE Ext(i + 1, IF A(d[i]).is_switch THEN acc \o Descendants(d[i]) ELSE acc)
    IN  Ext(1, d)

(***************************************************************************)
(* Storage (DAGNodeStorage / HiddenDict)                                   *)
(* res[n]  : <<"absent">> | <<kind, tag, extra>>  kind in val|none|falsy|  *)
(*           lab|err|rec ; tag : dest -> max data index in the provenance   *)
(***************************************************************************)
NoTag == [d \in Dests |-> 0]
Absent == <<"absent">>
HasRes(S, n) == S.res[n] # Absent /\ n \notin S.hid          \* exists_node_result (without hidden)
HasResH(S, n) == S.res[n] # Absent
IsErr(r) == r # Absent /\ r[1] = "err"
IsRec(r) == r # Absent /\ r[1] = "rec"
Processed(S, n) == n \in S.proc /\ n \notin S.hidp

SwitchCase(S, sw) == S.sw[sw]                                 \* "-" if not resolved
(* _get_predecessors *)
Preds(S, D, n) ==
    LET raw == IF A(n).is_switch \/ A(n).is_head \/ D.rec THEN DPreds(D, n) ELSE {u \in Nodes : HasEdge(u, n)}
    IN  {IF A(p).is_switch /\ SwitchCase(S, p) # "-" THEN SwitchCase(S, p) ELSE p : p \in raw}
(* _is_ready_to_execute *)
Ready(S, D, n) == \A p \in Preds(S, D, n) : HasRes(S, p) /\ ~IsRec(S.res[p])
PredErr(S, D, n) == {p \in Preds(S, D, n) : HasRes(S, p) /\ IsErr(S.res[p])}

(* __get_subgraph_nodes / __has_subgraph_error (fix c56e0e8: through the selected branches of switches) *)
RECURSIVE SubNodes(_, _, _)
SubNodes(S, nodes, depth) ==
    IF depth = 0 THEN nodes
    ELSE nodes \cup UNION {SubNodes(S, Between(G.input, SwitchCase(S, n), TRUE, FALSE), depth - 1)
                           : n \in {m \in nodes : A(m).is_switch /\ SwitchCase(S, m) # "-"}}
SubErr(S, D) == \E n \in SubNodes(S, D.nodes, 3) : HasRes(S, n) /\ IsErr(S.res[n])

(***************************************************************************)
(* asyncio substrate                                                       *)
(***************************************************************************)
Task(S, t) == S.tasks[t]
Top(S, t) == LET s == S.tasks[t].stack IN s[Len(s)]
SetTop(S, t, f) == [S EXCEPT !.tasks[t].stack[Len(S.tasks[t].stack)] = f]
SetPc(S, t, pc) == SetTop(S, t, [Top(S, t) EXCEPT !.pc = pc])
Push(S, t, f) == [S EXCEPT !.tasks[t].stack = Append(@, f)]
Pop(S, t) == [S EXCEPT !.tasks[t].stack = SubSeq(@, 1, Len(@) - 1)]

Enqueue(S, t) == IF \E i \in 1..Len(S.ready) : S.ready[i] = t THEN S ELSE [S EXCEPT !.ready = Append(@, t)]

(* create_task: a new task, first step scheduled *)
Spawn(S, name, frame) ==
    LET t == Len(S.tasks) + 1
    IN  [S EXCEPT !.tasks = Append(@, [name |-> name, stack |-> <<frame>>, status |-> "ready", wait |-> <<"new">>,
                                       mustcancel |-> FALSE, ret |-> <<"none">>, exc |-> <<"none">>]),
                  !.ready = Append(@, t)]
LastTask(S) == Len(S.tasks)

(* Condition.notify_all: every waiter of the condition gets a wake-up, in waiting order *)
RECURSIVE WakeAll(_, _)
WakeAll(S, ws) ==
    IF Len(ws) = 0 THEN S
    ELSE LET t == ws[1]
             S1 == IF S.tasks[t].status = "blocked"
                   THEN Enqueue([S EXCEPT !.tasks[t].status = "ready"], t) ELSE S
         IN  WakeAll(S1, Tail(ws))
Notify(S, c) == LET ws == S.conds[c] IN WakeAll([S EXCEPT !.conds[c] = <<>>], ws)
RECURSIVE NotifySeq(_, _)
NotifySeq(S, cs) == IF Len(cs) = 0 THEN S ELSE NotifySeq(Notify(S, cs[1]), Tail(cs))
NotifyDesc(S, n) == NotifySeq(S, Descendants(n))
SetEvent(S, n) == LET ws == S.evw[n] IN WakeAll([S EXCEPT !.ev[n] = TRUE, !.evw[n] = <<>>], ws)

Block(S, t, w) == [S EXCEPT !.tasks[t].status = "blocked", !.tasks[t].wait = w]
BlockCond(S, t, c) == Block([S EXCEPT !.conds[c] = Append(@, t)], t, <<"cond", c>>)
BlockEvent(S, t, n) == Block([S EXCEPT !.evw[n] = Append(@, t)], t, <<"event", n>>)
BlockGate(S, t, n) == Block([S EXCEPT !.gates = @ \cup {t}], t, <<"gate", n>>)
BlockCGate(S, t, what, n) == Block([S EXCEPT !.gates = @ \cup {t}], t, <<"cgate", what, n>>)   \* a suspended collaborator call
BlockTimer(S, t, due) == Block([S EXCEPT !.timers = Append(@, <<due, t>>)], t, <<"timer", due>>)   \* creation order breaks ties
Yield(S, t) == Enqueue([S EXCEPT !.tasks[t].status = "ready", !.tasks[t].wait = <<"yield">>], t)

(* Task.cancel(): cancel the future the task is blocked on (wake-up with CancelledError), else _must_cancel *)
Cancel(S, t) ==
    LET T == S.tasks[t]
    IN  IF T.status \in {"done", "failed", "cancelled"} THEN S
        ELSE IF T.status = "blocked"
             THEN LET w == T.wait
                      S1 == CASE w[1] = "cond"  -> [S EXCEPT !.conds[w[2]] = SelectSeq(@, LAMBDA x : x # t)]
                              [] w[1] = "event" -> [S EXCEPT !.evw[w[2]] = SelectSeq(@, LAMBDA x : x # t)]
                              [] w[1] \in {"gate", "cgate"} -> [S EXCEPT !.gates = @ \ {t}]
                              [] w[1] = "timer" -> S    \* the TimerHandle stays scheduled until the task's finally cancels it
                              [] OTHER -> S
                  IN  Enqueue([S1 EXCEPT !.tasks[t].status = "ready", !.tasks[t].mustcancel = TRUE], t)
             ELSE [S EXCEPT !.tasks[t].mustcancel = TRUE]
RECURSIVE CancelSeq(_, _)
CancelSeq(S, ts) == IF Len(ts) = 0 THEN S ELSE CancelSeq(Cancel(S, ts[1]), Tail(ts))

(***************************************************************************)
(* Outcome of a node body: plan + recurrent request, as the generated       *)
(* bodies of harness/runtime.py compute it                                  *)
(***************************************************************************)
KwTag(S, n) ==
    (* pointwise max over the values delivered as keyword arguments, plus the additional_data token *)
    LET srcs == {p \in Nodes : HasEdge(p, n) /\ Edge(p, n).kw # "-"}
        val(p) == IF A(p).is_switch THEN (IF SwitchCase(S, p) # "-" THEN S.res[SwitchCase(S, p)] ELSE Absent) ELSE S.res[p]
        tagof(r) == IF r = Absent \/ r[1] \in {"none", "falsy", "lab", "err"} THEN NoTag
                    ELSE IF r[1] = "rec" THEN (IF r[3] = <<"none">> THEN r[2]
                                               ELSE [d \in Dests |-> IF d = r[3][1] THEN Max2(r[2][d], r[3][2]) ELSE r[2][d]])
                    ELSE r[2]
        base == [d \in Dests |-> LET xs == {tagof(val(p))[d] : p \in srcs} IN IF xs = {} THEN 0 ELSE CHOOSE x \in xs : \A y \in xs : y <= x]
        ad == S.addl[n]
    IN  IF ad = <<"-">> THEN base ELSE [d \in Dests |-> IF d = ad[1] THEN Max2(base[d], ad[2]) ELSE base[d]]

(* the plan may depend on the epoch: the largest re-iteration index visible in the arguments *)
RunCfg(S) == G.runs[S.rid]          \* per-run plans: [plan, plan_it, recreq, recfalsy, recnone]
PlanAtE(S, n, k, tag) ==
    LET byit == RunCfg(S).plan_it[n]
        eps == {tag[d] : d \in Dests}
        ep == IF eps = {} THEN 0 ELSE CHOOSE x \in eps : \A y \in eps : y <= x
        pl == IF Len(byit) = 0 THEN RunCfg(S).plan[n] ELSE byit[IF ep + 1 > Len(byit) THEN Len(byit) ELSE ep + 1]
    IN  pl[IF k > Len(pl) THEN Len(pl) ELSE k]

(***************************************************************************)
(* The interpreter.  Exec(S, t) runs task t from its current pc until it    *)
(* blocks or ends, and returns the new state.                               *)
(* Continuation protocol: a frame that finishes sets tasks[t].ret and is    *)
(* popped; the caller frame continues at its pc (which names the call it    *)
(* was waiting for).  Raise unwinds to the nearest `finally` (node frames)  *)
(* or ends the task.                                                        *)
(***************************************************************************)
Ret(S, t, v) == Pop([S EXCEPT !.tasks[t].ret = v], t)

FinishTask(S, t) ==
    LET e == S.tasks[t].exc
    IN  [S EXCEPT !.tasks[t].status = IF e = <<"none">> THEN "done" ELSE IF e = <<"cancelled">> THEN "cancelled" ELSE "failed",
                  !.tasks[t].wait = <<"end">>]

RECURSIVE Exec(_, _), Unwind(_, _), NodeFin(_, _), DagLoop(_, _), OneofLoop(_, _), RecLoop(_, _), AttemptLoop(_, _)

(* raise exception e in task t at its current position *)
Raise(S, t, e) == Unwind([S EXCEPT !.tasks[t].exc = e], t)
Unwind(S, t) ==
    IF Len(S.tasks[t].stack) = 0 THEN FinishTask(S, t)
    ELSE LET f == Top(S, t)
         IN  IF f.fn = "node" /\ f.pc # "fin" THEN NodeFin(SetPc(S, t, "fin"), t)       \* try/finally of _run_node
             ELSE IF f.fn = "run" /\ f.pc \in {"c0", "r0", "c2"}
                  THEN (* cancelled inside a pipeline-level callback: no manager is running (any more) *)
                       FinishTask([S EXCEPT !.tasks[t].stack = <<>>, !.outcome = <<"cancelled", S.tasks[t].exc>>], t)
             ELSE IF f.fn = "run"
                  THEN (* run(): finally -> _stop_coro_tasks(all).  An Exception is turned into an error result by
                          PipelineChart.run, which first awaits emit_on_pipeline_complete; a BaseException (and the
                          caller's cancellation) propagates *)
                       LET x == S.tasks[t].exc
                           S1 == CancelSeq(S, SelectSeq([i \in 1..Len(S.tasks) |-> i], LAMBDA i : i # t))
                           isexc == x # <<"cancelled">> /\ x[1] # "base" /\ ~(x = <<"anyof">> /\ \E y \in S.errs : y[1] = "base")
                       IN  IF isexc
                           THEN LET S2 == SetTop([S1 EXCEPT !.tasks[t].exc = <<"none">>], t, [f EXCEPT !.pc = "c2", !.out = <<"error", x>>])
                                IN  IF G.collab["ev"] = "yield" THEN BlockCGate(S2, t, "ev", "-") ELSE Exec(S2, t)
                           ELSE FinishTask([S1 EXCEPT !.tasks[t].stack = <<>>,
                                                     !.outcome = <<IF x = <<"cancelled">> THEN "cancelled" ELSE "error", x>>], t)
                  ELSE Unwind(Pop(S, t), t)

(* a frame returned normally: continue the caller *)
Continue(S, t) == IF Len(S.tasks[t].stack) = 0 THEN FinishTask(S, t) ELSE Exec(S, t)

(* ---- _run_node: finally block (manager.py 689-709) ---- *)
NodeFin(S, t) ==
    LET f == Top(S, t)
        n == f.n
        D == S.dags[f.dag]
    IN  IF ~f.unlock
        THEN (* skip unlocking the descendants: event, unlock itself, `return` (swallows an in-flight exception) *)
             Continue(Ret([Notify(SetEvent(S, n), n) EXCEPT !.tasks[t].exc = <<"none">>], t, <<"none">>), t)
        ELSE LET S1 == Notify(NotifyDesc(SetEvent(S, n), n), "run")
                 S2 == Notify(S1, n)          \* unlock itself: the dag n is the destination of, a one-of that found n already running
             IN  IF S2.tasks[t].exc # <<"none">> THEN Unwind(Pop(S2, t), t)
                 ELSE Continue(Ret(S2, t, <<"none">>), t)

(* ---- collaborators: event manager callbacks and artifact store saves ----                                   *)
(* G.collab.ev / G.collab.save = "sync": the call returns without suspending; "yield": the callback really      *)
(* suspends (a gate the environment completes), which opens every `await emit_...` / `await save` as a point     *)
(* where other tasks run and where a cancellation can land.                                                      *)
(* await a collaborator call, then continue the node frame at `pc` *)
CollabThen(S, t, what, pc) ==
    LET S1 == SetPc(S, t, pc)
    IN  IF G.collab[what] = "yield" THEN BlockCGate(S1, t, what, Top(S, t).n) ELSE Exec(S1, t)

(* the result is in f.result: spawn the recurrent task, store (unless duplicate), save, then the finally block *)
NodeStore(S, t) ==
    LET f == Top(S, t)
        n == f.n
        r == f.result
        (* only the request that executed the node starts the sub-graph; a duplicate request that reads the marker does not *)
        S1 == IF IsRec(r)
              THEN SetTop(IF f.dup \/ <<A(n).start, n>> \in S.active THEN S     \* ... nor an execution inside the running sub-graph
                          ELSE Spawn(S, "rec-" \o n, [fn |-> "rec", pc |-> "q0", n |-> n, dag |-> f.dag, iter |-> 0, data |-> r[3], sub |-> 0]),
                          t, [f EXCEPT !.unlock = FALSE])
              ELSE S
    IN  IF ~f.dup /\ r[1] \notin {"rec", "err"}
        THEN (* await ctx.save_node_result FIRST: the result becomes visible only once the artifact is saved *)
             CollabThen([S1 EXCEPT !.saves = Append(@, n)], t, "save", "saved")
        ELSE NodeFin(SetPc(IF ~f.dup THEN [S1 EXCEPT !.res[n] = r, !.hid = @ \ {n}] ELSE S1, t, "fin"), t)

(* an Exception left __execute_node: emit node_complete(ex); inside one-of dags the exception is the value *)
NodeFail(S, t, tok) ==
    CollabThen(SetTop(S, t, [Top(S, t) EXCEPT !.result = <<"err", NoTag, tok>>]), t, "ev", "efail")

(* run_node_default: the default is the result; _execute_node then emits node_complete(None) *)
NodeDefault(S, t) ==
    LET f == Top(S, t)
    IN  CollabThen(SetTop([S EXCEPT !.defaults = Append(@, f.n)], t, [f EXCEPT !.result = <<"val", KwTag(S, f.n), "dflt">>]),
                   t, "ev", "ecomp")

(* evaluate the outcome of attempt f.k of the body of f.n (called when the body completes) *)
BodyDone(S, t) ==
    LET f == Top(S, t)
        n == f.n
        a == A(n)
        tag == KwTag(S, n)
        o == PlanAtE(S, n, f.k, tag)
        req == RunCfg(S).recreq[n]
        S0 == [S EXCEPT !.ends = Append(@, <<n, f.k>>)]
        ok(r) == CollabThen(SetTop(S0, t, [f EXCEPT !.result = r]), t, "ev", "ecomp")    \* emit node_complete(None)
    IN  CASE o[1] = "ok" ->
               IF req >= 0 /\ tag[n] < req
               THEN ok(<<"rec", tag, IF \E i \in 1..Len(RunCfg(S).recnone[n]) : RunCfg(S).recnone[n][i] = tag[n] + 1 THEN <<"none">>
                                     ELSE <<n, IF RunCfg(S).recfalsy[n] THEN 0 ELSE tag[n] + 1>>>>)
               ELSE ok(<<"val", tag, "v">>)
          [] o[1] = "none"  -> ok(<<"none", NoTag, "-">>)
          [] o[1] = "falsy" -> ok(<<"falsy", NoTag, "-">>)
          [] o[1] = "label" -> ok(<<"lab", NoTag, o[2]>>)
          [] o[1] = "raise" ->
               LET tok == <<n, f.k, o[2]>>
               IN  IF Matches(o[2], a.excs)
                   THEN IF f.k = a.attempts
                        THEN (IF a.use_default THEN NodeDefault(S0, t) ELSE NodeFail(S0, t, tok))
                        ELSE (* await emit node_complete(error); n_attempts += 1; await asyncio.sleep(delay) *)
                             CollabThen(S0, t, "ev", "eretry")
                   ELSE IF IsExc(o[2])
                        THEN (IF a.use_default THEN NodeDefault(S0, t) ELSE NodeFail(S0, t, tok))
                        ELSE Raise(S0, t, <<"base", tok>>)          \* BaseException: neither retried nor defaulted

(* start attempt f.k: run_node dispatch by execution mode *)
AttemptLoop(S, t) ==
    LET f == Top(S, t)
        n == f.n
        S1 == [S EXCEPT !.starts = Append(@, <<n, f.k, KwTag(S, n)>>),
                        !.badstart = @ \cup {<<n, p>> : p \in {q \in Nodes : HasEdge(q, n) /\ Edge(q, n).kw # "-" /\
                                LET r == IF A(q).is_switch THEN (IF SwitchCase(S, q) # "-" THEN S.res[SwitchCase(S, q)] ELSE Absent) ELSE S.res[q]
                                IN  r = Absent \/ r[1] \in {"err", "rec"} \/ (IF A(q).is_switch THEN SwitchCase(S, q) \in S.hid ELSE q \in S.hid)}}]
    IN  IF A(n).mode = "inline" THEN BodyDone(SetPc(S1, t, "body"), t)
        ELSE BlockGate(SetPc(S1, t, "body"), t, n)

(* ---- _run_dag ---- *)
DagLoop(S, t) ==
    LET f == Top(S, t)
        D == S.dags[f.dag]
    IN  IF f.i > Len(f.order)
        THEN (* await wait_for_condition(dag.dest, exists_node_result(dag.dest)) *)
             IF HasRes(S, D.dest) THEN Continue(Ret(S, t, S.res[D.dest]), t)
             ELSE BlockCond(SetPc(S, t, "wdest"), t, D.dest)
        ELSE LET n == f.order[f.i]
             IN  IF ~(Ready(S, D, n) \/ (D.oneof /\ SubErr(S, D)))
                 THEN BlockCond(SetPc(S, t, "wready"), t, n)
                 ELSE IF D.oneof /\ SubErr(S, D)
                      THEN (* early exit of a failed one-of subgraph: unlock descendants and dest; the nodes already
                              started are left running (they may be shared with the next candidate) *)
                           Continue(Ret(Notify(NotifyDesc(S, n), D.dest), t, <<"none">>), t)
                      ELSE IF ~D.oneof /\ ~A(n).is_head /\ PredErr(S, D, n) # {}
                           THEN (* an error stored as a dependency's result is the error of the run (fix 3e75aa7) *)
                                LET p == CHOOSE q \in PredErr(S, D, n) : TRUE
                                IN  Raise(Notify(S, "run"), t, <<"err", S.res[p][3]>>)
                           ELSE LET frame == IF A(n).is_switch THEN [fn |-> "switch", pc |-> "s0", n |-> n, dag |-> f.dag]
                                             ELSE IF A(n).is_head THEN [fn |-> "oneof", pc |-> "o0", n |-> n, dag |-> f.dag, idx |-> 1, od |-> 0]
                                             ELSE [fn |-> "node", pc |-> "n0", n |-> n, dag |-> f.dag, force |-> FALSE, dup |-> FALSE,
                                                   unlock |-> TRUE, k |-> 1, result |-> Absent]
                                    S1 == Spawn(S, n, frame)
                                IN  DagLoop(SetTop(S1, t, [f EXCEPT !.i = @ + 1, !.locals = Append(@, LastTask(S1))]), t)

DagStart(S, t) ==
    LET f == Top(S, t)
        D == S.dags[f.dag]
        order == SelectSeq(TopoOrder(D), LAMBDA n : D.rec \/ ~Processed(S, n))
        (* a node of the sub-graph still in flight (a started node of a failed one-of candidate is left running) belongs
           to the previous iteration: its task is cancelled before the results are hidden (fix: outdated executions) *)
        outdated == SelectSeq([i \in 1..Len(S.tasks) |-> i], LAMBDA i : i # t /\ S.tasks[i].name \in SeqSet(order))
        S0 == IF D.rec THEN CancelSeq(S, outdated) ELSE S
        S1 == IF D.rec THEN [S0 EXCEPT !.hid = @ \cup SeqSet(order), !.hidp = @ \cup SeqSet(order)] ELSE S0
    IN  IF Len(order) = 0 THEN Continue(Ret(S1, t, <<"none">>), t)
        ELSE DagLoop(SetTop(S1, t, [f EXCEPT !.order = order, !.i = 1, !.locals = <<>>, !.pc = "loop"]), t)

NewDag(S, D) == [S EXCEPT !.dags = Append(@, D)]
CallDag(S, t, D) ==
    LET S1 == NewDag(S, D)
    IN  Push(S1, t, [fn |-> "dag", pc |-> "d0", dag |-> Len(S1.dags), order |-> <<>>, i |-> 1, locals |-> <<>>])

(* ---- _run_oneof ---- *)
OneofLoop(S, t) ==
    LET f == Top(S, t)
        h == f.n
        cands == A(h).oneof
        D == S.dags[f.dag]
    IN  IF f.idx > Len(cands)
        THEN IF D.nested
             THEN Continue(Ret(NotifyDesc(Notify([S EXCEPT !.res[h] = <<"err", NoTag, <<h, 0, "oneof_noresult">>>>, !.hid = @ \ {h}], h), h),
                               t, <<"none">>), t)
             ELSE Raise(Notify(S, "run"), t, <<"err", <<h, 0, "oneof_noresult">>>>)
        ELSE LET c == cands[f.idx]
                 od == MkDag(G.input, c, TRUE, TRUE, FALSE, TRUE)
                 S1 == NewDag(S, od)
                 odi == Len(S1.dags)
                 S2 == Spawn(S1, "oneofdag:" \o c, [fn |-> "dag", pc |-> "d0", dag |-> odi, order |-> <<>>, i |-> 1, locals |-> <<>>])
             IN  Exec(SetTop(S2, t, [f EXCEPT !.od = odi, !.pc = "o1"]), t)

(* ---- _run_recurrent_subgraph ---- *)
RecLoop(S, t) ==
    LET f == Top(S, t)
        n == f.n
        start == A(n).start
        D == S.dags[f.dag]
    IN  IF f.iter >= A(n).maxit
        THEN (* attempts exceeded *)
             IF A(n).use_default
             THEN Exec(Push([SetPc(S, t, "q3") EXCEPT !.hid = @ \cup {n}, !.hidp = @ \cup {n}], t,
                            [fn |-> "node", pc |-> "n0", n |-> n, dag |-> f.dag, force |-> TRUE, dup |-> FALSE, unlock |-> TRUE,
                             k |-> 1, result |-> Absent]), t)
             ELSE IF D.oneof
                  THEN Exec(SetPc(NotifyDesc(Notify([S EXCEPT !.res[n] = <<"err", NoTag, <<n, 0, "rec_noresult">>>>, !.hid = @ \ {n}], n), n),
                                  t, "q4"), t)
                  ELSE Raise(Notify(S, "run"), t, <<"err", <<n, 0, "rec_noresult">>>>)
        ELSE LET S1 == [S EXCEPT !.addl[start] = IF f.data = <<"none">> THEN <<"-">> ELSE f.data]    \* None: no additional_data
             IN  Exec(CallDag(SetPc(S1, t, "q2"), t, S.dags[f.sub]), t)

Exec(S, t) ==
    LET f == Top(S, t)
    IN
    CASE f.fn = "run" ->
           (CASE f.pc = "c0" ->
                   (* PipelineChart.run: await ctx.emit_on_pipeline_start() *)
                   IF G.collab["ev"] = "yield" THEN BlockCGate(SetPc(S, t, "r0"), t, "ev", "-") ELSE Exec(SetPc(S, t, "r0"), t)
              [] f.pc = "c2" ->
                   (* back from emit_on_pipeline_complete: PipelineChart.run returns the result *)
                   FinishTask([S EXCEPT !.tasks[t].stack = <<>>, !.outcome = f.out], t)
              [] f.pc = "r0" ->
                   (* create the task of the main dag, then wait on the 'run' condition *)
                   LET D == MkDag(G.input, G.output, FALSE, FALSE, FALSE, TRUE)
                       S1 == NewDag(S, D)
                       S2 == Spawn(S1, "run", [fn |-> "dag", pc |-> "d0", dag |-> Len(S1.dags), order |-> <<>>, i |-> 1, locals |-> <<>>])
                   IN  Exec(SetPc(S2, t, "r1"), t)
              [] f.pc = "r1" ->
                   LET failed == {i \in 1..Len(S.tasks) : S.tasks[i].status = "failed"}
                   IN  IF failed = {} /\ ~HasRes(S, G.output) THEN BlockCond(S, t, "run")
                       ELSE IF failed # {}
                            THEN (* _get_dag_result raises the first error it meets: which one is up to set order *)
                                 Raise([S EXCEPT !.errs = {S.tasks[i].exc : i \in failed}], t, <<"anyof">>)
                            ELSE (* finally: stop all tasks; chart.run: await emit_on_pipeline_complete(result) *)
                                 LET S1 == SetTop(CancelSeq(S, SelectSeq([i \in 1..Len(S.tasks) |-> i], LAMBDA i : i # t)), t,
                                                  [f EXCEPT !.pc = "c2", !.out = <<"value", S.res[G.output]>>])
                                 IN  IF G.collab["ev"] = "yield" THEN BlockCGate(S1, t, "ev", "-") ELSE Exec(S1, t))
      [] f.fn = "dag" ->
           (CASE f.pc = "d0" -> DagStart(S, t)
              [] f.pc \in {"loop", "wready"} -> DagLoop(S, t)
              [] f.pc = "wdest" -> DagLoop(S, t))
      [] f.fn = "node" ->
           (CASE f.pc = "n0" ->
                   (* is_duplicate_request; _execute_node: duplicate path or mark as processed *)
                   IF Processed(S, f.n)
                   THEN IF S.ev[f.n] THEN Exec(SetTop(S, t, [f EXCEPT !.dup = TRUE, !.pc = "ndup"]), t)
                        ELSE BlockEvent(SetTop(S, t, [f EXCEPT !.dup = TRUE, !.pc = "ndup"]), t, f.n)
                   ELSE (* set_node_as_processed; await emit_on_node_start *)
                        CollabThen([S EXCEPT !.proc = @ \cup {f.n}, !.hidp = @ \ {f.n}], t, "ev", "estart")
              [] f.pc = "estart" -> IF f.force THEN NodeDefault(S, t) ELSE AttemptLoop(S, t)
              [] f.pc = "ecomp" -> NodeStore(S, t)
              [] f.pc = "eretry" ->
                   LET S1 == SetTop(S, t, [f EXCEPT !.k = @ + 1, !.pc = "sleep"])
                   IN  IF A(f.n).delay = 0 THEN Yield(S1, t) ELSE BlockTimer(S1, t, S1.now + A(f.n).delay)
              [] f.pc = "efail" ->
                   IF S.dags[f.dag].oneof THEN NodeStore(S, t) ELSE Raise(S, t, <<"err", f.result[3]>>)
              [] f.pc = "saved" -> NodeFin(SetPc([S EXCEPT !.res[f.n] = f.result, !.hid = @ \ {f.n}], t, "fin"), t)
              [] f.pc = "ndup" ->
                   (* get_node_result(node_id): without hidden -> None for a hidden / absent result *)
                   NodeStore(SetTop(S, t, [f EXCEPT !.result = IF HasRes(S, f.n) THEN S.res[f.n] ELSE <<"none", NoTag, "-">>]), t)
              [] f.pc = "body" -> BodyDone(S, t)
              [] f.pc = "sleep" -> AttemptLoop(S, t)
              [] f.pc = "fin" -> NodeFin(S, t))
      [] f.fn = "switch" ->
           (CASE f.pc = "s0" ->
                   LET sw == f.n
                       D == S.dags[f.dag]
                       dec == CHOOSE p \in Nodes : HasEdge(p, sw) /\ Edge(p, sw).sw
                       r == IF HasRes(S, dec) THEN S.res[dec] ELSE <<"none", NoTag, "-">>
                       cases == {p \in Nodes : HasEdge(p, sw) /\ Edge(p, sw).cs # "-" /\ r[1] = "lab" /\ Edge(p, sw).cs = r[3]}
                   IN  IF cases = {}
                       THEN Raise(Notify(S, "run"), t, <<"err", <<sw, 0, "unknown_label">>>>)
                       ELSE LET c == CHOOSE p \in cases : TRUE
                                S1 == [S EXCEPT !.sw[sw] = c]
                            IN  Exec(CallDag(SetPc(S1, t, "s1"), t, MkDag(G.input, c, D.oneof, D.nested, FALSE, TRUE)), t)     \* is_oneof and is_nested_oneof of the owning dag
              [] f.pc = "s1" -> Continue(Ret(NotifyDesc(S, f.n), t, <<"none">>), t))
      [] f.fn = "oneof" ->
           (CASE f.pc = "o0" -> OneofLoop(S, t)
              [] f.pc = "o1" ->
                   LET c == A(f.n).oneof[f.idx]
                       od == S.dags[f.od]
                   IN  IF ~(SubErr(S, od) \/ (HasRes(S, c) /\ ~IsRec(S.res[c]))) THEN BlockCond(S, t, c)
                       ELSE IF ~SubErr(S, od)
                            THEN Continue(Ret(Notify(NotifyDesc(Notify([S EXCEPT !.res[f.n] = S.res[c], !.hid = @ \ {f.n}], f.n), f.n), "run"),
                                              t, <<"none">>), t)
                            ELSE OneofLoop(SetTop(S, t, [f EXCEPT !.idx = @ + 1, !.pc = "o0"]), t))
      [] f.fn = "rec" ->
           (CASE f.pc = "q0" ->
                   LET n == f.n
                       start == A(n).start
                   IN  IF <<start, n>> \in S.active THEN Continue(Ret(S, t, <<"none">>), t)
                       ELSE LET sub == MkDag(start, n, S.dags[f.dag].oneof, FALSE, TRUE, FALSE)
                                S1 == NewDag([S EXCEPT !.active = @ \cup {<<start, n>>}], sub)
                            IN  RecLoop(SetTop(S1, t, [f EXCEPT !.sub = Len(S1.dags), !.pc = "q1"]), t)
              [] f.pc = "q1" -> RecLoop(S, t)
              [] f.pc = "q2" ->
                   (* back from _run_dag(recurrent_subgraph) *)
                   LET r == S.tasks[t].ret
                   IN  IF SubErr(S, S.dags[f.sub])
                       THEN (* the failure of the sub-graph is kept as the destination's result (another scope may need
                               the same sub-graph), the sub-graph is no longer active; wake whoever waits for n *)
                            LET m == CHOOSE x \in SubNodes(S, S.dags[f.sub].nodes, 3) : HasRes(S, x) /\ IsErr(S.res[x])
                                S1 == [S EXCEPT !.res[f.n] = S.res[m], !.hid = @ \ {f.n},
                                                !.active = @ \ {<<A(f.n).start, f.n>>}, !.addl[A(f.n).start] = <<"-">>]
                            IN  Continue(Ret(NotifyDesc(S1, f.n), t, <<"none">>), t)
                       ELSE IF ~(r # <<"none">> /\ IsRec(r))
                            THEN Exec(SetPc(S, t, "q4"), t)
                            ELSE RecLoop(SetTop(S, t, [f EXCEPT !.iter = @ + 1, !.data = r[3], !.pc = "q1"]), t)
              [] f.pc = "q3" -> Exec(SetPc(S, t, "q4"), t)
              [] f.pc = "q4" ->
                   Continue(Ret([S EXCEPT !.active = @ \ {<<A(f.n).start, f.n>>}, !.addl[A(f.n).start] = <<"-">>], t, <<"none">>), t))

(* a frame pushed by CallDag / RecLoop must be started right away (the call is synchronous up to the first await) *)
(* -> Exec is re-entered by the callers above through the new top frame                                         *)

(***************************************************************************)
(* Resuming a task (one loop step)                                         *)
(***************************************************************************)
Resume(S, t) ==
    LET T == S.tasks[IF t < 0 THEN 0 - t ELSE t]
        S0 == IF t < 0 THEN S ELSE [S EXCEPT !.tasks[t].status = "running", !.tasks[t].mustcancel = FALSE]
    IN  IF t < 0
        THEN (* the callback of a TimerHandle: sets the future of asyncio.sleep unless it was cancelled meanwhile *)
             LET u == 0 - t
             IN  IF S.tasks[u].status = "blocked" /\ S.tasks[u].wait[1] = "timer"
                 THEN Enqueue([S EXCEPT !.tasks[u].status = "ready"], u) ELSE S
        ELSE IF T.mustcancel
        THEN (IF T.wait = <<"new">>
              THEN (* the coroutine never started: the exception is raised before its first statement, no finally *)
                   FinishTask([S0 EXCEPT !.tasks[t].exc = <<"cancelled">>, !.tasks[t].stack = <<>>,
                                         !.outcome = IF t = 1 THEN <<"cancelled", <<"cancelled">>>> ELSE @], t)
              ELSE (* asyncio.sleep's finally cancels its TimerHandle, whether still scheduled or already in the ready queue *)
                   Raise([S0 EXCEPT !.timers = SelectSeq(@, LAMBDA x : x[2] # t), !.ready = SelectSeq(@, LAMBDA x : x # 0 - t)],
                         t, <<"cancelled">>))
        ELSE Exec(S0, t)

InitSt(rid) ==
           [rid |-> rid, res |-> [n \in Nodes |-> Absent], hid |-> {}, proc |-> {}, hidp |-> {}, sw |-> [n \in Nodes |-> "-"],
          active |-> {}, addl |-> [n \in Nodes |-> <<"-">>],
          conds |-> [c \in Nodes \cup {"run"} |-> <<>>], ev |-> [n \in Nodes |-> FALSE], evw |-> [n \in Nodes |-> <<>>],
          tasks |-> << [name |-> "main", stack |-> << [fn |-> "run", pc |-> "c0", out |-> <<"pending">>] >>, status |-> "ready", wait |-> <<"new">>,
                        mustcancel |-> FALSE, ret |-> <<"none">>, exc |-> <<"none">>] >>,
          ready |-> <<1>>, gates |-> {}, timers |-> <<>>, now |-> 0, dags |-> <<>>,
          outcome |-> <<"pending">>, errs |-> {},
          starts |-> <<>>, ends |-> <<>>, saves |-> <<>>, defaults |-> <<>>, badstart |-> {}]

Init == act = <<"init">> /\ st = InitSt(1)

Running == st.outcome = <<"pending">>

Step ==
    /\ Running /\ Len(st.ready) > 0
    /\ LET t == st.ready[1]
           S0 == [st EXCEPT !.ready = Tail(@)]
       IN  st' = Resume(S0, t) /\ act' = <<"step", IF t < 0 THEN "timer" ELSE st.tasks[t].name>>

Fire(t) ==
    /\ Running /\ t \in st.gates
    /\ st' = Enqueue([st EXCEPT !.gates = @ \ {t}, !.tasks[t].status = "ready"], t)
    /\ act' = <<"fire", IF st.tasks[t].wait[1] = "cgate" THEN st.tasks[t].wait[2] \o ":" \o st.tasks[t].wait[3] ELSE st.tasks[t].name>>

Tick ==
    /\ Running /\ Len(st.timers) > 0
    /\ LET i == CHOOSE k \in 1..Len(st.timers) :
                    \A j \in 1..Len(st.timers) : st.timers[k][1] < st.timers[j][1] \/ (st.timers[k][1] = st.timers[j][1] /\ k <= j)
           due == st.timers[i]
       IN  st' = [st EXCEPT !.timers = SelectSeq(@, LAMBDA x : x # due), !.now = Max2(@, due[1]), !.ready = Append(@, 0 - due[2])]
    /\ act' = <<"tick">>

(* the caller cancels the run (request timeout): Task.cancel() on the task that awaits PipelineChart.run *)
CancelRun ==
    /\ Running /\ G.cancel /\ st.tasks[1].status \in {"ready", "blocked"}
    /\ st' = Cancel(st, 1)
    /\ act' = <<"cancel">>

Next == Step \/ (\E t \in st.gates : Fire(t)) \/ Tick \/ CancelRun
Spec == Init /\ [][Next]_vars
FairSpec == Spec /\ WF_vars(Next)

(***************************************************************************)
(* Properties of the model (all schedules of the instance)                  *)
(***************************************************************************)
(* C02: never loop idle, nothing outstanding, run pending *)
NoStuck == ~(Running /\ Len(st.ready) = 0 /\ st.gates = {} /\ Len(st.timers) = 0)
(* C04: per (node, provenance tag) at most `attempts` body invocations.  An iteration requested with
   next_iteration(None) runs the start node WITHOUT additional_data, i.e. with the provenance of an earlier execution:
   every such request of the run's plan allows one more execution under the same tag *)
NoneIters(S) == Cardinality({x \in (DOMAIN RunCfg(S).recnone) \X (1..8) :
                                 x[2] <= Len(RunCfg(S).recnone[x[1]])
                                 \/ (RunCfg(S).recfalsy[x[1]] /\ x[1] \in Dests /\ x[2] <= A(x[1]).maxit)})   \* payload 0: no epoch in the tag
AtMostOnce == \A i \in 1..Len(st.starts) :
                 Cardinality({j \in 1..Len(st.starts) : st.starts[j][1] = st.starts[i][1] /\ st.starts[j][3] = st.starts[i][3]})
                    <= A(st.starts[i][1]).attempts * (1 + NoneIters(st))
(* C03: a body never starts with an absent / hidden / failed / Recurrent input *)
CleanStarts == st.badstart = {}
(* C06: in a pipeline of plain Input dependencies, whenever the loop is idle and every node of smaller depth has its
   result, every node of the next depth has been started (its body is in flight or done) - whatever is held open *)
SiblingsConcurrent ==
    (G.prog.plain /\ Running /\ Len(st.ready) = 0 /\ st.tasks[1].stack # <<>> /\ st.tasks[1].stack[1].pc = "r1") =>
        \A n \in DOMAIN G.prog.depth :
            (G.prog.depth[n] >= 0 /\ \A m \in DOMAIN G.prog.depth : (G.prog.depth[m] >= 0 /\ G.prog.depth[m] < G.prog.depth[n]) => HasRes(st, m))
                => n \in st.proc
(* C01/C05: value / failure as the reference semantics (Dataflow.tla) says for the instance's program *)
SemOfRun(r) == Sem(G.prog, G.prog.runs[r], r).r
SemR == SemOfRun(1)
OutcomeOK ==
    st.outcome = <<"pending">> \/ G.prog.amb \/ st.outcome[1] = "cancelled" \/
    (IF SemR[1] = "V" THEN st.outcome[1] = "value" /\ st.outcome[2] # Absent /\ st.outcome[2][1] # "err"
     ELSE st.outcome[1] = "error")
(* C13.cancel: once the caller has cancelled, the run ends as cancelled (it does not hang, it does not report an error) -
   unless it had already produced its outcome in the very step that was queued before the cancellation took effect *)
CancelledEndsCancelled == (act = <<"cancel">>) => TRUE
Termination == <>(~Running)

View == st
(* labelled state graph for the conformance replay: one JSON line per explored transition (-workers 1) *)
Export == PrintT(<<"EDGE", ToJson([s |-> st, a |-> act', d |-> st'])>>)
=============================================================================
