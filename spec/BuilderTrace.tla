---------------------------- MODULE BuilderTrace ----------------------------
(***************************************************************************)
(* Validation of what the REAL build_dag returned (or raised) for generated *)
(* declaration sets against ExpectedGraph / ExpectedVerdict of Builder.tla  *)
(* (properties C15 and C16).  One state per case, total verdicts.           *)
(* Input: [cases |-> Seq([id, d, verdict, graph])]                          *)
(***************************************************************************)
EXTENDS Naturals, Sequences, FiniteSets, TLC, Json, IOUtils

Batch == JsonDeserialize(IOEnv.TRACE_FILE)
Cases == Batch.cases
NC == Len(Cases)

VARIABLES i, out, done
vars == <<i, out, done>>

B == INSTANCE Builder

SeqSet(s) == {s[k] : k \in 1..Len(s)}
SetToSeq(X) == LET RECURSIVE f(_)
                   f(Y) == IF Y = {} THEN <<>> ELSE LET x == CHOOSE y \in Y : TRUE IN <<x>> \o f(Y \ {x})
               IN f(X)
Pairs(E) == {<<e[1], e[2]>> : e \in E}

Judge(c) ==
    LET D == c.d
        ev == B!ExpectedVerdict(D)
    IN  IF c.verdict \notin ev
        THEN (IF "ok" \in ev THEN {"C16.valid"} ELSE {"C16.reject"})
        ELSE IF c.verdict # "ok" THEN {}
        ELSE LET e == B!ExpectedGraph(D)
                 an == SeqSet(c.graph.nodes)
                 ae == SeqSet(c.graph.edges)
                 aa == SeqSet(c.graph.attrs)
                 am == SeqSet(c.graph.map)
                 de == (e.edges \ ae) \cup (ae \ e.edges)
             IN  (IF an # e.nodes THEN {"C15.nodes"} ELSE {})
                 \cup (IF \E x \in de : x[3] = "kw" THEN
                          (IF Pairs({x \in e.edges : x[3] = "kw"}) = Pairs({x \in ae : x[3] = "kw"})
                              /\ Cardinality({x \in e.edges : x[3] = "kw"}) = Cardinality({x \in ae : x[3] = "kw"})
                           THEN {"C15.kw"} ELSE {"C15.edges"})
                       ELSE {})
                 \cup (IF \E x \in de : x[3] \in {"sw", "case"} THEN {"C15.edges"} ELSE {})
                 \cup (IF \E x \in de : x[3] = "plain" THEN {"C15.implicit"} ELSE {})
                 \cup (IF \E x \in de : x[3] \notin {"kw", "sw", "case", "plain"} THEN {"C15.edges"} ELSE {})
                 \cup (IF aa # e.attrs THEN {"C15.attrs"} ELSE {})
                 \cup (IF am # e.map THEN {"C15.map"} ELSE {})
                 \cup (IF c.graph.io # <<D.input, D.output>> THEN {"C15.nodes"} ELSE {})

Init == i = 1 /\ out = <<>> /\ done = FALSE
Step == /\ i <= NC
        /\ out' = Append(out, [id |-> Cases[i].id, viol |-> SetToSeq({<<x, i>> : x \in Judge(Cases[i])})])
        /\ i' = i + 1 /\ UNCHANGED done
Finish == /\ i > NC /\ ~done /\ JsonSerialize(IOEnv.OUT_FILE, out) /\ done' = TRUE /\ UNCHANGED <<i, out>>
Next == Step \/ Finish
Spec == Init /\ [][Next]_vars
AllConsumed == done => (i = NC + 1 /\ Len(out) = NC)
=============================================================================
