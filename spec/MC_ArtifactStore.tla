---------------------------- MODULE MC_ArtifactStore ----------------------------
EXTENDS ArtifactStore
MCKeys == {"a", "a.b", "ab"}
MCVals == {"v1", "v2", "bad"}
MCFmts == {"pickle", "json"}
MCSer == {<<"v1", "pickle">>, <<"v1", "json">>, <<"v2", "pickle">>}
=============================================================================
