---------------------------- MODULE ViewerTrace ----------------------------
(***************************************************************************)
(* Validation of the configuration the REAL GraphConfigImpl.generate        *)
(* returned for DAGs built from generated declaration modules, against      *)
(* Viewer!ExpectedConfig (property C20).                                    *)
(* Input: [cases |-> Seq([id, d, nodes, edges, types, json_ok, pure])]      *)
(*   nodes: Seq(<<id, is_virtual, is_generic, type, has_data, name,         *)
(*               verbose_name, doc>>), edges: Seq(<<edge id, source, target>>)*)
(***************************************************************************)
EXTENDS Naturals, Sequences, FiniteSets, TLC, Json, IOUtils

Batch == JsonDeserialize(IOEnv.TRACE_FILE)
Cases == Batch.cases
NC == Len(Cases)
VARIABLES i, out, done, dag, config
vars == <<i, out, done, dag, config>>

V == INSTANCE Viewer
SeqSet(s) == {s[k] : k \in 1..Len(s)}
SetToSeq(X) == LET RECURSIVE f(_)
                   f(Y) == IF Y = {} THEN <<>> ELSE LET x == CHOOSE y \in Y : TRUE IN <<x>> \o f(Y \ {x})
               IN f(X)

Judge(c) ==
    LET D == c.d
        en == V!ExpectedNodes(D)
        ee == V!ExpectedEdges(D)
        an == SeqSet(c.nodes)
        ae == {<<e[2], e[3]>> : e \in SeqSet(c.edges)}
        ids == {e[1] : e \in SeqSet(c.edges)}
    IN  IF "crash" \in DOMAIN c /\ c.crash # "-" THEN {"C20.generate"}       \* the pipeline builds, generate() raised
        ELSE
        (IF an # en \/ Len(c.nodes) # Cardinality(en) THEN {"C20.nodes"} ELSE {})
        \cup (IF ae # ee \/ Len(c.edges) # Cardinality(ee) \/ Cardinality(ids) # Len(c.edges)
                 \/ \E e \in ae : e[1] \notin {n[1] : n \in an} \/ e[2] \notin {n[1] : n \in an}
              THEN {"C20.edges"} ELSE {})
        \cup (IF ~(V!ExpectedTypes(D) \subseteq SeqSet(c.types)) THEN {"C20.types"} ELSE {})
        \cup (IF ~c.json_ok THEN {"C20.json"} ELSE {})
        \cup (IF ~c.pure THEN {"C20.pure"} ELSE {})

Init == i = 1 /\ out = <<>> /\ done = FALSE /\ dag = 0 /\ config = 0
Step == /\ i <= NC
        /\ out' = Append(out, [id |-> Cases[i].id, viol |-> SetToSeq({<<x, i>> : x \in Judge(Cases[i])})])
        /\ i' = i + 1 /\ UNCHANGED <<done, dag, config>>
Finish == /\ i > NC /\ ~done /\ JsonSerialize(IOEnv.OUT_FILE, out) /\ done' = TRUE /\ UNCHANGED <<i, out, dag, config>>
Next == Step \/ Finish
Spec == Init /\ [][Next]_vars
AllConsumed == done => (i = NC + 1 /\ Len(out) = NC)
=============================================================================
