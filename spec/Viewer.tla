------------------------------- MODULE Viewer -------------------------------
(***************************************************************************)
(* The viewer graph description as a projection of the DAG (property C20,   *)
(* DESIGN 4.5).  ExpectedConfig(D) is derived from the declaration set D    *)
(* through Builder!ExpectedGraph: one entry per DAG node, one edge entry    *)
(* per DAG dependency, a type table covering the occurring types.           *)
(* The one-step action Generate leaves the DAG unchanged.                   *)
(*                                                                         *)
(* decl carries what a real node's entry must show: ename, everbose, edoc,  *)
(* egeneric (declared through build_node), etype (node_type of the class,   *)
(* "None" for a node that implements NodeBase directly).                    *)
(***************************************************************************)
EXTENDS Naturals, Sequences, FiniteSets, TLC

B == INSTANCE Builder

IsReal(D, id) == id \in DOMAIN D.order
SynType(D, id) ==
    IF \E n \in DOMAIN D.order : \E i \in 1..Len(B!Decl(D, n).marks) : B!Decl(D, n).marks[i].name = id
    THEN "switch" ELSE "input_one_of"

ExpectedNodes(D) ==
    {IF IsReal(D, id)
     THEN LET d == B!Decl(D, id)
          IN <<id, FALSE, d.egeneric, d.etype, TRUE, d.ename, d.everbose, d.edoc>>     \* etype: the class's node_type
     ELSE <<id, TRUE, FALSE, SynType(D, id), FALSE, "-", "-", "-">>
     : id \in B!ExpectedGraph(D).nodes}
ExpectedEdges(D) == {<<e[1], e[2]>> : e \in B!ExpectedGraph(D).edges}
ExpectedTypes(D) == {n[4] : n \in ExpectedNodes(D)} \ {"None"}       \* a node without a type has no table entry

(* the generation step as an action over (dag, config): the DAG is a read-only input *)
VARIABLES dag, config
Generate(D) == /\ config' = [nodes |-> ExpectedNodes(D), edges |-> ExpectedEdges(D), types |-> ExpectedTypes(D)]
               /\ UNCHANGED dag
=============================================================================
