"""Checks for the properties that are not about the scheduler: C15, C16 (builder), C17 (modes / pools),
C18 (filesystem artifact store), C20 (viewer).  Same pattern as the run-time properties: a TLA+
specification explored by TLC, and recorded calls of the real code validated by TLC against it."""
import asyncio
import json
import os
import random
import shutil
import sys
import tempfile
import time
import warnings

from harness import tlc

ROOT = os.path.dirname(os.path.dirname(os.path.abspath(__file__)))


def write_evidence(pid, tier, seed, level, coverage, t0, violations, assumptions):
    ev = {'property_id': pid, 'tier': tier, 'seed': seed, 'level': level, 'coverage': coverage,
          'assumptions': assumptions, 'wall_s': round(time.time() - t0, 2), 'violations': violations}
    os.makedirs(os.path.join(ROOT, 'evidence'), exist_ok=True)
    with open(os.path.join(ROOT, 'evidence', pid + '.json'), 'w') as f:
        json.dump(ev, f, indent=1)


def load_known():
    from harness import checks
    return checks.load_known()


def report(pid, verdicts, payload_of, known_key_of, tag):
    """print VIOLATION / KNOWN-FINDING lines; returns number of new violations"""
    known = [k for k in load_known() if k.get('status') == 'finding' and k['property'] == pid]
    os.makedirs(os.path.join(ROOT, 'replays'), exist_ok=True)
    new = 0
    seen_known = set()
    reported = set()
    for hid, v in sorted(verdicts.items()):
        clauses = sorted({c for c, _ in v if c.startswith(pid + '.')})
        if not clauses:
            continue
        fresh = []
        for c in clauses:
            hit = None
            for k in known:
                if k['clause'] == c and known_key_of(hid, c, v) in k.get('sites', ()):
                    hit = k
            if hit:
                if (c, hit['what']) not in seen_known:
                    seen_known.add((c, hit['what']))
                    print('KNOWN-FINDING: property=%s %s [%s]' % (pid, hit['what'], c))
            else:
                fresh.append(c)
        if fresh:
            key = (known_key_of(hid, fresh[0], v), tuple(fresh))
            if key in reported:
                continue
            reported.add(key)
            new += 1
            path = os.path.join(ROOT, 'replays', '%s_%s_%d.json' % (pid, tag, new))
            with open(path, 'w') as f:
                json.dump({'property': pid, 'kind': tag, 'case': payload_of(hid), 'clauses': v}, f)
            print('VIOLATION property=%s replay=%s  # %s clauses=%s' % (pid, path, hid, ','.join(fresh)))
    return new


# ======================================================================================================
# C18  filesystem artifact store
# ======================================================================================================

NODE_IDS = ['a', 'a.b', 'a.b.c', 'ab', 'a*', 'a?', '[a]', 'a.pickle', 'a.json', 'b', 'step_1', 'step_10', 'x.y', 'x',
            # ids with path separators: a name like 'features/v2', and one that points into another pipeline's directory
            'a/b', '../p1/a', '../p2/a', 'a%2Fb']

AS_MC_CFG = '''SPECIFICATION Spec
CONSTANTS
 Keys <- MCKeys
 Vals <- MCVals
 Fmts <- MCFmts
 Serialisable <- MCSer
INVARIANT TypeOK
INVARIANT OnlySerialisable
INVARIANT LoadFaithful
PROPERTY WriteOnce
PROPERTY KeyIsolation
PROPERTY FailedLeavesUnsaved
PROPERTY ExistsLeavesIntact
CHECK_DEADLOCK FALSE
'''


class _Unpicklable:
    def __reduce__(self):
        raise TypeError('not picklable')


def c18_values():
    """token -> python value; serialisable pairs"""
    vals = {}
    ser = []
    for i in range(6):
        vals['j%d' % i] = {'tok': i, 'list': [i, str(i)], 'nested': {'k': None}, 'ratio': i / 10}     # survives JSON and pickle
        ser += [['j%d' % i, 'pickle'], ['j%d' % i, 'json']]
    for i in range(3):
        vals['p%d' % i] = ('tuple', i, frozenset([i]))                                  # pickle only
        ser += [['p%d' % i, 'pickle']]
    vals['bad'] = _Unpicklable()                                                           # neither
    return vals, ser


def c18_history(rnd, nops, ids, contexts):
    vals, _ = c18_values()
    toks = sorted(vals)
    ops = []
    for _ in range(nops):
        ctx = rnd.choice(contexts)
        nid = rnd.choice(ids)
        if rnd.random() < 0.5:
            ops.append({'op': 'save', 'key': [ctx[0], ctx[1], nid], 'val': rnd.choice(toks),
                        'fmt': rnd.choice(['pickle', 'pickle', 'json']), 'en': ctx[2] if len(ctx) > 2 else '-'})
        else:
            ops.append({'op': 'load', 'key': [ctx[0], ctx[1], nid], 'val': '-', 'fmt': '-', 'en': ctx[2] if len(ctx) > 2 else '-'})
    return ops


def c18_execute(ops):
    sys.path.insert(0, os.environ.get('VERIF_REPO', '/repo'))
    from ml_pipeline_engine.artifact_store.enums import DataFormat
    from ml_pipeline_engine.artifact_store.errors import ArtifactAlreadyExists
    from ml_pipeline_engine.artifact_store.errors import ArtifactDoesNotExist
    from ml_pipeline_engine.artifact_store.store.filesystem import FileSystemArtifactStore
    vals, _ = c18_values()
    d = tempfile.mkdtemp(prefix='verif_c18_')
    stores = {}

    import enum
    # model names given as Enum members (the store keys by the member's VALUE): two enums whose members share a name
    enums = {'E1': enum.Enum('E1', {'DEFAULT': 'scoring', 'OTHER': 'fraud'}),
             'E2': enum.Enum('E2', {'DEFAULT': 'fraud', 'OTHER': 'm1'})}

    class Ctx:
        def __init__(self, m, p, en='-'):
            self.model_name = m if en == '-' else enums[en](m)
            self.pipeline_id = p

    async def run():
        out = []
        for o in ops:
            m, p, nid = o['key']
            en = o.get('en', '-')
            st = stores.get((m, p, en))
            if st is None:
                st = stores[(m, p, en)] = FileSystemArtifactStore(Ctx(m, p, en), d)
            o = dict(o)
            try:
                if o['op'] == 'save':
                    await st.save(nid, vals[o['val']], fmt=DataFormat(o['fmt']))
                    o['reply'] = ['ok']
                else:
                    got = await st.load(nid)
                    tok = [t for t, v in vals.items() if t != 'bad' and v == got and type(v) is type(got)]
                    o['reply'] = ['value', tok[0] if tok else 'unknown']
            except ArtifactAlreadyExists:
                o['reply'] = ['exists']
            except ArtifactDoesNotExist:
                o['reply'] = ['missing']
            except Exception as ex:  # noqa: BLE001
                o['reply'] = ['failed' if o['op'] == 'save' else 'error', type(ex).__name__]
            out.append(o)
        return out

    try:
        with warnings.catch_warnings():
            warnings.simplefilter('ignore')
            return asyncio.run(run())
    finally:
        shutil.rmtree(d, ignore_errors=True)


def run_c18(tier, seed):
    t0 = time.time()
    quick = tier == 'quick'
    mc = tlc.model_check('MC_ArtifactStore', AS_MC_CFG)
    if not mc['ok']:
        raise tlc.TLCError('ArtifactStore.tla model check failed:\n' + mc['out_tail'])
    rnd = random.Random('c18/%d' % seed)
    nh = 150 if quick else 1500
    _, ser = c18_values()
    hist = []
    cases = {}
    for i in range(nh):
        ids = rnd.sample(NODE_IDS, rnd.randint(2, 6))
        if i % 3:
            contexts = [('m1', 'p1')]
        elif i % 4 == 1:
            # separators in the model name / pipeline id: ('m', 'a/b') and ('m/a', 'b') are different keys
            contexts = [('m', 'a/b'), ('m/a', 'b'), ('m', '../other/p'), ('other', 'p'), ('m', 'a%2Fb')]
        elif i % 2:
            contexts = [('m1', 'p1'), ('m1', 'p2'), ('m2', 'p1'), ('m1.x', 'p1')]
        else:
            # the same key through an Enum member and through its plain value; enums sharing member names
            contexts = [('scoring', 'p1', 'E1'), ('fraud', 'p1', 'E2'), ('fraud', 'p1', 'E1'), ('scoring', 'p1'), ('m1', 'p1', 'E2'),
                        ('m1', 'p1')]
        ops = c18_history(rnd, rnd.randint(4, 30 if quick else 60), ids, contexts)
        done = c18_execute(ops)
        hid = 'h%d' % i
        hist.append({'id': hid, 'ops': done})
        cases[hid] = done
    verdicts, st = tlc.run_batch('ArtifactStoreTrace', {'ser': ser, 'histories': hist}, len(hist))

    def site(hid, clause, v):
        line = min(l for c, l in v if c == clause)
        o = cases[hid][line - 1]
        return '%s:%s' % (o['op'], o['key'][2])
    new = report('C18', verdicts, lambda hid: cases[hid], site, 'history')
    apalache = None
    if not quick:
        # optional extra: inductive invariant with Apalache (one step from ANY state satisfying IndInv, arbitrary key and
        # value sets up to the Gen bounds) - an argument that does not depend on the instance TLC enumerated
        import subprocess
        apalache = {}
        adir = os.path.join(tlc.SPEC_DIR, 'apalache')
        outd = tempfile.mkdtemp(prefix='verif_apa_')
        try:
            for init, inv, length in (('Init', 'IndInv', '0'), ('IndInit', 'IndInv', '1'), ('IndInit', 'WriteOnceStep', '1'),
                                      ('IndInit', 'KeyIsolationStep', '1'), ('IndInit', 'FailedLeavesUnsaved', '1'),
                                      ('IndInit', 'LoadFaithful', '1')):
                try:
                    p = subprocess.run(['apalache-mc', 'check', '--cinit=CInit', '--init=' + init, '--inv=' + inv, '--length=' + length,
                                        '--out-dir=' + outd, 'ArtifactStoreApa.tla'], cwd=adir, capture_output=True, text=True, timeout=600)
                    apalache['%s=>%s' % (init, inv)] = 'NoError' if 'The outcome is: NoError' in p.stdout else 'FAILED'
                except (OSError, subprocess.TimeoutExpired) as ex:
                    apalache['%s=>%s' % (init, inv)] = 'not run: %s' % type(ex).__name__
        finally:
            shutil.rmtree(outd, ignore_errors=True)
        if any(v == 'FAILED' for v in apalache.values()):
            raise tlc.TLCError('Apalache found the inductive invariant of ArtifactStoreApa.tla violated: %r' % apalache)
    nops = sum(len(h['ops']) for h in hist)
    distinct = len({json.dumps(h['ops'], sort_keys=True) for h in hist})
    write_evidence('C18', tier, seed, 'model_checking', {
        'states': mc.get('distinct', 0) + st.get('distinct', 0), 'transitions': mc.get('generated', 0) + st.get('generated', 0),
        'traces_validated_against_impl': len(hist), 'operations': nops, 'distinct_histories': distinct,
        'model_instance': '3 keys x 3 values x 2 formats, exhaustive: %d distinct states' % mc.get('distinct', 0),
        'apalache_inductive': apalache,
        'samples': [hist[0]['ops'][:8], hist[len(hist) // 2]['ops'][:8]],
    }, t0, new, ['values are tokens mapped to fixed Python objects (equality of the loaded object decides the token)',
                 'TLC 1.8, CommunityModules Json'])
    print('C18 %s: model %d states; %d histories (%d operations) of the real store validated, %d new violation(s), %.1fs'
          % (tier, mc.get('distinct', 0), len(hist), nops, new, time.time() - t0))
    return 1 if new else 0


# ======================================================================================================
# C15 / C16  build_dag
# ======================================================================================================

B_MC_CFG = '''SPECIFICATION BSpec
INVARIANT Confluent
INVARIANT ValidatedOnce
CHECK_DEADLOCK FALSE
'''


def has_dup_binding(d):
    """two declared dependencies that need the same (u, v) graph edge: two parameters of one node bound to the same
    source (plain / recurrent / the same named switch), or two labels of one switch that select the same case node"""
    for x in d['decls']:
        pairs = []
        for m in x['marks']:
            if m['kind'] in ('input', 'rec'):
                pairs.append((m['node'], x['id']))
            elif m['kind'] == 'switch':
                pairs.append((m['name'], x['id']))
                pairs += [(c, m['name'], lab) for lab, c in m['cases']]
        plain = [p[:2] for p in pairs]
        if len(set(pairs)) != len(set(plain)) or len([p for p in pairs if len(p) == 2]) != len({p for p in pairs if len(p) == 2}):
            return True
    return False


def builder_decl_sets(tier, seed):
    """valid declaration sets: corpus shapes, random programs, permuted parameter order, unnamed switches,
    build_node-derived nodes, duplicate bindings"""
    from harness import corpus
    from harness import decls
    from harness import gen
    quick = tier == 'quick'
    rnd = random.Random('builder/%d' % seed)
    out = []
    seen = set()
    progs = []
    for p in corpus.all_programs():
        shape = p['name'].split('#')[0]
        if shape not in seen:
            seen.add(shape)
            progs.append(p)
    for i in range(60 if quick else 600):
        progs.append(gen.random_program(seed, i, modes=True))
    for k, p in enumerate(progs):
        d = decls.from_program(p)
        out.append(d)
        if k % 7 == 3:
            # the same declarations in a module with postponed evaluation of annotations
            df = decls.from_program(p)
            df['future'] = True
            df['name'] += '~future'
            out.append(df)
        r = rnd.random()
        if r < 0.35:
            # permuted parameter (declaration) order: the graph must not depend on it (head ids follow the order)
            q = json.loads(json.dumps(p))
            for n in q['nodes']:
                rnd.shuffle(n['params'])
            d2 = decls.from_program(q)
            d2['name'] += '~perm'
            out.append(d2)
        if any(prm['kind'] == 'switch' for n in p['nodes'] for prm in n['params']) and \
                (rnd.random() < 0.5 or p['name'].startswith('switch_two_unnamed')):
            d3 = decls.from_program(p, unnamed_switch=True)
            d3['name'] += '~unnamed'
            out.append(d3)
        cand = [n['id'] for n in p['nodes'] if n['params'] and n['id'] != p['input']
                and all(prm['kind'] in ('input', 'switch', 'oneof', 'rec') for prm in n['params'])]
        if cand and rnd.random() < 0.4:
            pick = set(rnd.sample(cand, min(len(cand), 2)))
            rec_nodes = {prm.get('dest') for n in p['nodes'] for prm in n['params'] if prm['kind'] == 'rec'} | \
                        {prm.get('start') for n in p['nodes'] for prm in n['params'] if prm['kind'] == 'rec'}
            if rnd.random() < 0.5:
                pick -= rec_nodes
            if pick:
                d4 = decls.from_program(p, generic=pick)
                d4['name'] += '~generic'
                out.append(d4)
    # duplicate binding: two parameters of one node bound to the same source (finding D10)
    from harness.corpus import I, N, P
    dup = P('dup_binding', [N('A'), N('B', I('p1', 'A')), N('O', I('p1', 'B'), I('p2', 'A'), I('p3', 'B'))], 'A', 'O')
    out.append(decls.from_program(dup))
    # declaration-only shapes that the run-time corpus avoids
    from harness.corpus import RC, SW, OO
    extra = [
        # two recurrent sub-graphs restarting from the same start node
        P('rec_shared_start', [N('A'), N('S', I('p1', 'A')), N('D1', I('p1', 'S')), N('D2', I('p1', 'S')),
                               N('O', RC('p1', 'S', 'D1', 2), RC('p2', 'S', 'D2', 1))], 'A', 'O'),
        # dependency parameters that carry the names the builder treats specially elsewhere
        P('service_names', [N('A'), N('B', I('args', 'A')), N('C', I('kwargs', 'A'), I('p1', 'B')),
                            N('O', I('args', 'B'), I('kwargs', 'C'), I('self_', 'A'))], 'A', 'O'),
        # a node that is a candidate of one one-of and a case of a switch and a plain input
        P('many_roles', [N('A'), N('S', I('p1', 'A')), N('X', I('p1', 'A')), N('Y', I('p1', 'A')),
                         N('M', OO('p1', ['X', 'Y'])), N('W', SW('p1', 'S', [('l1', 'X'), ('l2', 'Y')], name='roles')),
                         N('O', I('p1', 'M'), I('p2', 'W'), I('p3', 'X'))], 'A', 'O'),
        # the output node is itself the input node's only consumer; single edge
        P('two_nodes', [N('A'), N('O', I('p1', 'A'))], 'A', 'O'),
        # nodes without marks hang off the input implicitly, at several depths
        P('implicit_links', [N('A'), N('F1'), N('F2'), N('B', I('p1', 'F1')), N('O', I('p1', 'B'), I('p2', 'F2'))], 'A', 'O'),
        # one named switch shared by two consumers: one synthetic node, two deliveries
        P('shared_named_switch', [N('A'), N('S', I('p1', 'A')), N('X', I('p1', 'A')), N('Y', I('p1', 'A')),
                                  N('W1', SW('p1', 'S', [('l1', 'X'), ('l2', 'Y')], name='shared')),
                                  N('W2', SW('q1', 'S', [('l1', 'X'), ('l2', 'Y')], name='shared'), I('q2', 'A')),
                                  N('O', I('p1', 'W1'), I('p2', 'W2'))], 'A', 'O'),
        P('shared_named_switch3', [N('A'), N('S', I('p1', 'A')), N('X', I('p1', 'A')), N('Y', I('p1', 'A')),
                                   N('W1', SW('p1', 'S', [('l1', 'X'), ('l2', 'Y')], name='shared')),
                                   N('W2', SW('q1', 'S', [('l1', 'X'), ('l2', 'Y')], name='shared')),
                                   N('O', I('p1', 'W1'), I('p2', 'W2'), SW('p3', 'S', [('l1', 'X'), ('l2', 'Y')], name='shared'))],
          'A', 'O'),
        # two labels of one switch select the same case node (one (case, switch) edge can carry one label: finding D10)
        P('switch_two_labels_one_case', [N('A'), N('S', I('p1', 'A')), N('X', I('p1', 'A')), N('Y', I('p1', 'A')),
                                         N('O', SW('p1', 'S', [('l1', 'X'), ('l2', 'X'), ('l3', 'Y')], name='tl'))], 'A', 'O'),
        # nodes that implement the node interface directly (no node_type; ids node__<name>)
        P('plainbase_nodes', [N('A'), N('F', plainbase=True), N('B', I('p1', 'A'), plainbase=True),
                              N('O', I('p1', 'B'), I('p2', 'F'))], 'A', 'O'),
        P('plainbase_io', [N('A', plainbase=True), N('B', I('p1', 'A')), N('O', I('p1', 'B'), I('p2', 'A'), plainbase=True)], 'A', 'O'),
        # the output node is the input node
        P('input_is_output', [N('A')], 'A', 'A'),
        # nodes with a node type of the user's own, as docs/usage_examples.md does ('ml_model')
        P('custom_node_type', [N('A'), N('F', I('p1', 'A')), N('M', I('p1', 'F'), ntype='ml_model'),
                               N('O', I('p1', 'M'), I('p2', 'A'), ntype='ml_model')], 'A', 'O'),
        # the destination of a recurrent sub-graph has a second, ordinary consumer that the traversal may meet first
        P('rec_dest_also_plain', [N('A'), N('S', I('p1', 'A')), N('D', I('p1', 'S')), N('R', RC('p1', 'S', 'D', 2)),
                                  N('Q', I('p1', 'D')), N('O', I('p1', 'R'), I('p2', 'Q'))], 'A', 'O'),
        P('rec_dest_also_plain2', [N('A'), N('S', I('p1', 'A')), N('D', I('p1', 'S')), N('R', RC('p1', 'S', 'D', 2)),
                                   N('Q', I('p1', 'D')), N('O', I('p1', 'Q'), I('p2', 'R'))], 'A', 'O'),
        P('rec_dest_also_candidate', [N('A'), N('S', I('p1', 'A')), N('D', I('p1', 'S')), N('X', I('p1', 'A')),
                                      N('O', OO('p1', ['D', 'X']), RC('p2', 'S', 'D', 2))], 'A', 'O'),
        P('rec_dest_also_case', [N('A'), N('S', I('p1', 'A')), N('D', I('p1', 'S')), N('X', I('p1', 'A')), N('K', I('p1', 'A')),
                                 N('O', RC('p1', 'S', 'D', 2), SW('p2', 'K', [('l1', 'D'), ('l2', 'X')], name='rdc'))], 'A', 'O'),
        # a plain subclass of a concrete node (own name, inherited run method): a node of its own, parent met first / last
        P('derived_parent_first', [N('A'), N('B', I('p1', 'A')), N('B2', I('p1', 'A'), derives='B'),
                                   N('O', I('p1', 'B'), I('p2', 'B2'))], 'A', 'O'),
        P('derived_child_first', [N('A'), N('B', I('p1', 'A')), N('B2', I('p1', 'A'), derives='B'),
                                  N('O', I('p1', 'B2'), I('p2', 'B'))], 'A', 'O'),
        P('derived_chain', [N('A'), N('B', I('p1', 'A')), N('B2', I('p1', 'A'), derives='B'), N('B3', I('p1', 'A'), derives='B2'),
                            N('C', I('p1', 'B3'), I('p2', 'B')), N('O', I('p1', 'C'), I('p2', 'B2'))], 'A', 'O'),
    ]
    for p in extra:
        out.append(decls.from_program(p))
        d5 = decls.from_program(p, generic={n['id'] for n in p['nodes'] if n['params']})
        d5['name'] += '~generic'
        out.append(d5)
    return out


def run_builder(pid, tier, seed):
    from harness import decls
    t0 = time.time()
    quick = tier == 'quick'
    dsets = builder_decl_sets(tier, seed)
    tmp = tempfile.mkdtemp(prefix='verif_decl_')
    cases = []
    info = {}
    try:
        for d in dsets:
            todo = [d]
            if pid == 'C16':
                muts = decls.mutations(d)
                if quick and len(muts) > 14:
                    rnd = random.Random('mut/%s/%d' % (d['name'], seed))
                    muts = rnd.sample(muts, 14)
                todo += muts
            for q in todo:
                res, _ = decls.build(q, tmp)
                cid = '%s|%d' % (q['name'], len(cases))
                cases.append({'id': cid, 'd': decls.to_tla(q), 'verdict': res['verdict'], 'graph': res['graph']})
                info[cid] = q
    finally:
        shutil.rmtree(tmp, ignore_errors=True)
        for m in [m for m in sys.modules if m.startswith('verif_decl_')]:
            del sys.modules[m]
    # (ii) every traversal order of the worklist machine, for the small declaration sets (valid and defective)
    small = [c['d'] for c in cases if len(c['d']['decls']) <= (6 if quick else 8)]
    small = small[: (120 if quick else 1500)]
    dfile = tempfile.NamedTemporaryFile('w', suffix='.json', delete=False)
    json.dump(small, dfile)
    dfile.close()
    try:
        out, mc = tlc.run_tlc('BuilderMachine', B_MC_CFG, env={'DECL_FILE': dfile.name}, workers=8)
    finally:
        os.unlink(dfile.name)
    if 'Model checking completed. No error has been found.' not in out:
        raise tlc.TLCError('Builder.tla confluence check failed:\n' + out[-3000:])
    # (i) the real build_dag against ExpectedGraph / ExpectedVerdict, in parallel batches
    verdicts = {}
    st_states = 0
    st_gen = 0
    import concurrent.futures
    parts = [cases[i::8] for i in range(8)]
    with concurrent.futures.ThreadPoolExecutor(8) as pool:
        for v, st in pool.map(lambda part: tlc.run_batch('BuilderTrace', {'cases': part}, len(part)) if part else ({}, {}), parts):
            verdicts.update(v)
            st_states += st.get('distinct', 0)
            st_gen += st.get('generated', 0)

    def site(cid, clause, v):
        d = info[cid]
        if clause in ('C15.edges', 'C15.kw') and has_dup_binding(d):
            return 'duplicate-binding'
        if clause == 'C16.reject' and '!generic_partial' in d['name']:
            return 'partial-rebinding'
        return cid
    new = report(pid, verdicts, lambda cid: {'decls': info[cid], 'source': decls.emit(info[cid])}, site, 'decls')
    nvalid = sum(1 for c in cases if c['verdict'] == 'ok')
    write_evidence(pid, tier, seed, 'translation_validation', {
        'programs': len(cases), 'disagreements_checked': sum(1 for v in verdicts.values() if v),
        'built_ok': nvalid, 'rejected': len(cases) - nvalid,
        'worklist_model': {'declaration_sets': len(small), 'states': mc.get('distinct', 0), 'transitions': mc.get('generated', 0),
                           'invariants': ['Confluent', 'ValidatedOnce']},
        'states': mc.get('distinct', 0) + st_states, 'transitions': mc.get('generated', 0) + st_gen,
        'samples': [{'id': cases[0]['id'], 'verdict': cases[0]['verdict'], 'edges': cases[0]['graph']['edges'][:6]},
                    {'id': cases[-1]['id'], 'verdict': cases[-1]['verdict']}],
    }, t0, new, ['declaration sets are generated source modules built with the real build_dag',
                 'ExpectedGraph/ExpectedVerdict in spec/Builder.tla are the oracle; TLC evaluates them'])
    print('%s %s: %d declaration sets through the real build_dag validated by TLC (%d built, %d rejected); worklist model: '
          '%d sets, %d states, all traversal orders; %d new violation(s), %.1fs'
          % (pid, tier, len(cases), nvalid, len(cases) - nvalid, len(small), mc.get('distinct', 0), new, time.time() - t0))
    return 1 if new else 0


# ======================================================================================================
# C20  viewer graph description
# ======================================================================================================

def viewer_case(d, tmp, repeat=1):
    """build the DAG from a real source module, generate the description `repeat` times on ONE
    GraphConfigImpl object; one case per generated description"""
    import types
    from harness import decls
    if 'importlib_resources' not in sys.modules:
        sys.modules['importlib_resources'] = types.ModuleType('importlib_resources')   # not installed; only used by build_static
    from ml_pipeline_viewer.visualization.dag import GraphConfigImpl
    res, dag = decls.build(d, tmp)
    if dag is None:
        return []
    before = decls.export_dag(dag, d)
    impl = GraphConfigImpl(dag)
    out = []
    for k in range(repeat):
        try:
            with warnings.catch_warnings():
                warnings.simplefilter('ignore')       # 'Node ... without node type.' for nodes that implement NodeBase directly
                cfg = impl.generate(name='verif', verbose_name='Verif', node_colors={'processor': '#ffffff'})
            dct = cfg.as_dict()
        except Exception as ex:  # noqa: BLE001
            # the pipeline builds, the description cannot be generated: a verdict, not a failure of the machinery
            out.append({'id': '%s|gen%d' % (d['name'], k), 'd': decls.to_tla(d), 'nodes': [], 'edges': [], 'types': ['-'],
                        'json_ok': True, 'pure': True, 'crash': type(ex).__name__})
            continue
        try:
            json.loads(json.dumps(dct))
            json_ok = True
        except (TypeError, ValueError):
            json_ok = False
        after = decls.export_dag(dag, d)
        rename = {}
        if d.get('unnamed_switch'):
            rename = {raw: nm for raw, nm in zip(sorted(str(n) for n in dag.graph.nodes), [None] * 0)}

        def nm(x):
            return decls.short(x)
        # unnamed switch ids are random: use the same normalisation as the graph export
        ren = {}
        if d.get('unnamed_switch'):
            import re
            count = {}
            for n, data in dag.graph.nodes(data=True):
                if data.get('is_switch') and re.match(r'^switch__[0-9a-f]{8}$', str(n)):
                    outs = [(decls.short(v), ed.get('kwarg_name')) for _, v, ed in dag.graph.out_edges(n, data=True)]
                    key = 'switch__?%s.%s' % outs[0] if outs else 'switch__?orphan'
                    count[key] = count.get(key, 0) + 1
                    ren[str(n)] = key if count[key] == 1 else '%s#%d' % (key, count[key])

        def nid(x):
            return ren.get(str(x), decls.short(x))
        nodes = []
        for n in dct['nodes']:
            data = n.get('data')
            nodes.append([nid(n['id']), bool(n['is_virtual']), bool(n['is_generic']), str(n.get('type')),
                          data is not None,
                          str(data['name']) if data else '-',
                          ('null' if data['verbose_name'] is None else str(data['verbose_name'])) if data else '-',
                          ('null' if data['doc'] is None else str(data['doc'])) if data else '-'])
        edges = [['%s->%s' % (nid(e['source']), nid(e['target'])) if e['id'] == '%s->%s' % (e['source'], e['target']) else str(e['id']),
                  nid(e['source']), nid(e['target'])] for e in dct['edges']]
        out.append({'id': '%s|gen%d' % (d['name'], k), 'd': decls.to_tla(d), 'nodes': nodes, 'edges': edges,
                    'types': sorted(str(x) for x in dct['node_types']) or ['-'], 'json_ok': json_ok, 'pure': before == after,
                    'crash': '-'})
    return out


def run_c20(tier, seed):
    t0 = time.time()
    dsets = builder_decl_sets(tier, seed)
    tmp = tempfile.mkdtemp(prefix='verif_decl_')
    cases = []
    info = {}
    try:
        for k, d in enumerate(dsets):
            for c in viewer_case(d, tmp, repeat=3 if k % 4 == 0 else 1):
                c['id'] = '%s#%d' % (c['id'], len(cases))
                cases.append(c)
                info[c['id']] = d
    finally:
        shutil.rmtree(tmp, ignore_errors=True)
        for m in [m for m in sys.modules if m.startswith('verif_decl_')]:
            del sys.modules[m]
    import concurrent.futures
    verdicts = {}
    states = 0
    parts = [cases[i::8] for i in range(8)]
    with concurrent.futures.ThreadPoolExecutor(8) as pool:
        for v, st in pool.map(lambda part: tlc.run_batch('ViewerTrace', {'cases': part}, len(part)) if part else ({}, {}), parts):
            verdicts.update(v)
            states += st.get('distinct', 0)
    from harness import decls
    new = report('C20', verdicts, lambda cid: {'decls': info[cid], 'source': decls.emit(info[cid])}, lambda cid, c, v: cid, 'viewer')
    write_evidence('C20', tier, seed, 'translation_validation', {
        'programs': len(cases), 'disagreements_checked': sum(1 for v in verdicts.values() if v),
        'states': states, 'transitions': states,
        'samples': [{'id': cases[0]['id'], 'nodes': cases[0]['nodes'][:4], 'edges': cases[0]['edges'][:4]}],
    }, t0, new, ['importlib_resources (absent in the sandbox) is stubbed in sys.modules; it is only used by build_static',
                 'declaration modules are real source files so that inspect-based fields are produced as in production'])
    print('C20 %s: %d generated descriptions of %d DAGs validated by TLC against Viewer.tla, %d new violation(s), %.1fs'
          % (tier, len(cases), len(dsets), new, time.time() - t0))
    return 1 if new else 0


def run(pid, tier, seed):
    if pid in ('C15', 'C16'):
        return run_builder(pid, tier, seed)
    if pid == 'C20':
        return run_c20(tier, seed)
    fn = {'C18': run_c18}.get(pid)
    if fn is None:
        print('unknown property', pid)
        return 2
    return fn(tier, seed)
