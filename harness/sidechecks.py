"""Checks for the properties that are not about the scheduler: C15, C16 (builder), C17 (modes / pools),
C18 (filesystem artifact store), C20 (viewer).  Same pattern as the run-time properties: a TLA+
specification explored by TLC, and recorded calls of the real code validated by TLC against it."""
import asyncio
import json
import os
import random
import shutil
import sys
import tempfile
import time
import warnings

from harness import tlc

ROOT = os.path.dirname(os.path.dirname(os.path.abspath(__file__)))


def write_evidence(pid, tier, seed, level, coverage, t0, violations, assumptions):
    ev = {'property_id': pid, 'tier': tier, 'seed': seed, 'level': level, 'coverage': coverage,
          'assumptions': assumptions, 'wall_s': round(time.time() - t0, 2), 'violations': violations}
    os.makedirs(os.path.join(ROOT, 'evidence'), exist_ok=True)
    with open(os.path.join(ROOT, 'evidence', pid + '.json'), 'w') as f:
        json.dump(ev, f, indent=1)


def load_known():
    from harness import checks
    return checks.load_known()


def report(pid, verdicts, payload_of, known_key_of, tag):
    """print VIOLATION / KNOWN-FINDING lines; returns number of new violations"""
    known = [k for k in load_known() if k.get('status') == 'finding' and k['property'] == pid]
    os.makedirs(os.path.join(ROOT, 'replays'), exist_ok=True)
    new = 0
    seen_known = set()
    reported = set()
    for hid, v in sorted(verdicts.items()):
        clauses = sorted({c for c, _ in v if c.startswith(pid + '.')})
        if not clauses:
            continue
        fresh = []
        for c in clauses:
            hit = None
            for k in known:
                if k['clause'] == c and known_key_of(hid, c, v) in k.get('sites', ()):
                    hit = k
            if hit:
                if (c, hit['what']) not in seen_known:
                    seen_known.add((c, hit['what']))
                    print('KNOWN-FINDING: property=%s %s [%s]' % (pid, hit['what'], c))
            else:
                fresh.append(c)
        if fresh:
            key = (known_key_of(hid, fresh[0], v), tuple(fresh))
            if key in reported:
                continue
            reported.add(key)
            new += 1
            path = os.path.join(ROOT, 'replays', '%s_%s_%d.json' % (pid, tag, new))
            with open(path, 'w') as f:
                json.dump({'property': pid, 'kind': tag, 'case': payload_of(hid), 'clauses': v}, f)
            print('VIOLATION property=%s replay=%s  # %s clauses=%s' % (pid, path, hid, ','.join(fresh)))
    return new


# ======================================================================================================
# C18  filesystem artifact store
# ======================================================================================================

NODE_IDS = ['a', 'a.b', 'a.b.c', 'ab', 'a*', 'a?', '[a]', 'a.pickle', 'a.json', 'b', 'step_1', 'step_10', 'x.y', 'x']

AS_MC_CFG = '''SPECIFICATION Spec
CONSTANTS
 Keys <- MCKeys
 Vals <- MCVals
 Fmts <- MCFmts
 Serialisable <- MCSer
INVARIANT TypeOK
INVARIANT OnlySerialisable
INVARIANT LoadFaithful
PROPERTY WriteOnce
PROPERTY KeyIsolation
PROPERTY FailedLeavesUnsaved
PROPERTY ExistsLeavesIntact
CHECK_DEADLOCK FALSE
'''


class _Unpicklable:
    def __reduce__(self):
        raise TypeError('not picklable')


def c18_values():
    """token -> python value; serialisable pairs"""
    vals = {}
    ser = []
    for i in range(6):
        vals['j%d' % i] = {'tok': i, 'list': [i, str(i)], 'nested': {'k': None}}     # survives JSON and pickle
        ser += [['j%d' % i, 'pickle'], ['j%d' % i, 'json']]
    for i in range(3):
        vals['p%d' % i] = ('tuple', i, frozenset([i]))                                  # pickle only
        ser += [['p%d' % i, 'pickle']]
    vals['bad'] = _Unpicklable()                                                           # neither
    return vals, ser


def c18_history(rnd, nops, ids, contexts):
    vals, _ = c18_values()
    toks = sorted(vals)
    ops = []
    for _ in range(nops):
        ctx = rnd.choice(contexts)
        nid = rnd.choice(ids)
        if rnd.random() < 0.5:
            ops.append({'op': 'save', 'key': [ctx[0], ctx[1], nid], 'val': rnd.choice(toks),
                        'fmt': rnd.choice(['pickle', 'pickle', 'json'])})
        else:
            ops.append({'op': 'load', 'key': [ctx[0], ctx[1], nid], 'val': '-', 'fmt': '-'})
    return ops


def c18_execute(ops):
    sys.path.insert(0, os.environ.get('VERIF_REPO', '/repo'))
    from ml_pipeline_engine.artifact_store.enums import DataFormat
    from ml_pipeline_engine.artifact_store.errors import ArtifactAlreadyExists
    from ml_pipeline_engine.artifact_store.errors import ArtifactDoesNotExist
    from ml_pipeline_engine.artifact_store.store.filesystem import FileSystemArtifactStore
    vals, _ = c18_values()
    d = tempfile.mkdtemp(prefix='verif_c18_')
    stores = {}

    class Ctx:
        def __init__(self, m, p):
            self.model_name = m
            self.pipeline_id = p

    async def run():
        out = []
        for o in ops:
            m, p, nid = o['key']
            st = stores.get((m, p))
            if st is None:
                st = stores[(m, p)] = FileSystemArtifactStore(Ctx(m, p), d)
            o = dict(o)
            try:
                if o['op'] == 'save':
                    await st.save(nid, vals[o['val']], fmt=DataFormat(o['fmt']))
                    o['reply'] = ['ok']
                else:
                    got = await st.load(nid)
                    tok = [t for t, v in vals.items() if t != 'bad' and v == got and type(v) is type(got)]
                    o['reply'] = ['value', tok[0] if tok else 'unknown']
            except ArtifactAlreadyExists:
                o['reply'] = ['exists']
            except ArtifactDoesNotExist:
                o['reply'] = ['missing']
            except Exception as ex:  # noqa: BLE001
                o['reply'] = ['failed' if o['op'] == 'save' else 'error', type(ex).__name__]
            out.append(o)
        return out

    try:
        with warnings.catch_warnings():
            warnings.simplefilter('ignore')
            return asyncio.run(run())
    finally:
        shutil.rmtree(d, ignore_errors=True)


def run_c18(tier, seed):
    t0 = time.time()
    quick = tier == 'quick'
    mc = tlc.model_check('MC_ArtifactStore', AS_MC_CFG)
    if not mc['ok']:
        raise tlc.TLCError('ArtifactStore.tla model check failed:\n' + mc['out_tail'])
    rnd = random.Random('c18/%d' % seed)
    nh = 150 if quick else 1500
    _, ser = c18_values()
    hist = []
    cases = {}
    for i in range(nh):
        ids = rnd.sample(NODE_IDS, rnd.randint(2, 6))
        contexts = [('m1', 'p1')] if i % 3 else [('m1', 'p1'), ('m1', 'p2'), ('m2', 'p1'), ('m1.x', 'p1')]
        ops = c18_history(rnd, rnd.randint(4, 30 if quick else 60), ids, contexts)
        done = c18_execute(ops)
        hid = 'h%d' % i
        hist.append({'id': hid, 'ops': done})
        cases[hid] = done
    verdicts, st = tlc.run_batch('ArtifactStoreTrace', {'ser': ser, 'histories': hist}, len(hist))

    def site(hid, clause, v):
        line = min(l for c, l in v if c == clause)
        o = cases[hid][line - 1]
        return '%s:%s' % (o['op'], o['key'][2])
    new = report('C18', verdicts, lambda hid: cases[hid], site, 'history')
    nops = sum(len(h['ops']) for h in hist)
    distinct = len({json.dumps(h['ops'], sort_keys=True) for h in hist})
    write_evidence('C18', tier, seed, 'model_checking', {
        'states': mc.get('distinct', 0) + st.get('distinct', 0), 'transitions': mc.get('generated', 0) + st.get('generated', 0),
        'traces_validated_against_impl': len(hist), 'operations': nops, 'distinct_histories': distinct,
        'model_instance': '3 keys x 3 values x 2 formats, exhaustive: %d distinct states' % mc.get('distinct', 0),
        'samples': [hist[0]['ops'][:8], hist[len(hist) // 2]['ops'][:8]],
    }, t0, new, ['values are tokens mapped to fixed Python objects (equality of the loaded object decides the token)',
                 'TLC 1.8, CommunityModules Json'])
    print('C18 %s: model %d states; %d histories (%d operations) of the real store validated, %d new violation(s), %.1fs'
          % (tier, mc.get('distinct', 0), len(hist), nops, new, time.time() - t0))
    return 1 if new else 0


def run(pid, tier, seed):
    fn = {'C18': run_c18}.get(pid)
    if fn is None:
        print('unknown property', pid)
        return 2
    return fn(tier, seed)
