"""Programs as data (DESIGN §4.1): JSON-like description -> real node classes / DAG / chart, and the
normalised form handed to TLC.

prog = {
  'name': str,
  'nodes': [ {'id': 'A', 'params': [...], 'mode': 'coro'|'inline'|'thread'|'process',
              'attempts': None|int, 'delay': None|number, 'exceptions': None|[names],
              'use_default': bool} ... ]      # dependency order, dependencies first
  'input': id, 'output': id,
  'runs': [ {'input': {'x': 'tokA'}, 'plan': {node: [outcome...]}, 'recreq': {dest: k}} ... ],
  'collab': {'ev': {'mode': 'sync'|'yield', 'raise_at': []}, 'save': {...}},
}
param = {'kw', 'kind': 'input', 'node'} | {'kw','kind':'switch','sw','cases':[[label,node]..],'name'}
      | {'kw','kind':'oneof','cands':[..]} | {'kw','kind':'rec','start','dest','max'}
outcome = 'ok' | 'none' | 'falsy' | 'label:<l>' | 'raise:E1|E2|E3|B1'
"""
import hashlib
import zlib
import json

from . import runtime as rtm


def node_by_id(prog):
    return {n['id']: n for n in prog['nodes']}


def normalise(prog):
    """fill defaults in place and return prog"""
    for n in prog['nodes']:
        n.setdefault('params', [])
        n.setdefault('mode', 'coro')
        n.setdefault('attempts', None)
        n.setdefault('delay', None)
        n.setdefault('exceptions', None)
        n.setdefault('use_default', False)
        n.setdefault('generic', False)
        n.setdefault('cotag', False)     # coroutine body that (needlessly) carries the non_async tag
        for i, p in enumerate(n['params']):
            if p['kind'] == 'switch':
                p.setdefault('name', 'sw_%s_%s' % (n['id'], p['kw']))
    prog.setdefault('runs', [{'input': {'x': 'tokA'}}])
    for r in prog['runs']:
        r.setdefault('input', {'x': 'tokA'})
        r.setdefault('plan', {})
        r.setdefault('recreq', {})
        r.setdefault('recfalsy', [])
        r.setdefault('plan_it', {})
        r.setdefault('recnone', {})
    prog.setdefault('collab', {})
    return prog


def fingerprint(prog):
    core = {k: prog[k] for k in ('nodes', 'input', 'output')}
    return hashlib.sha1(json.dumps(core, sort_keys=True).encode()).hexdigest()[:12]


def rec_dests(prog):
    return {p['dest'] for n in prog['nodes'] for p in n['params'] if p['kind'] == 'rec'}


def rec_starts(prog):
    return {p['start'] for n in prog['nodes'] for p in n['params'] if p['kind'] == 'rec'}


GENERIC_CONST = {'c0': 'c'}      # sorts after additional_data and before every parameter name


def declared_label(lab):
    """labels written with digits only are declared (and returned by the deciding node) as ints: 0 is falsy, 1 == True"""
    return int(lab) if isinstance(lab, str) and lab.isdigit() else lab


def has_const(n):
    return bool(n.get('generic') and n['params'] and not n['use_default'])


def build_classes(prog, rt):
    """create real node classes for the program; returns {id: class}"""
    from ml_pipeline_engine.dag_builders.annotation.marks import Input
    from ml_pipeline_engine.dag_builders.annotation.marks import InputOneOf
    from ml_pipeline_engine.dag_builders.annotation.marks import RecurrentSubGraph
    from ml_pipeline_engine.dag_builders.annotation.marks import SwitchCase
    from ml_pipeline_engine.node import ProcessorBase
    from ml_pipeline_engine.node import RecurrentProcessor
    from ml_pipeline_engine.node.enums import NodeTag

    dests = rec_dests(prog)
    starts = rec_starts(prog)
    classes = {}
    for n in prog['nodes']:
        nid = n['id']
        ann = {}
        for p in n['params']:
            if p['kind'] == 'input':
                ann[p['kw']] = Input(classes[p['node']])
            elif p['kind'] == 'switch':
                ann[p['kw']] = SwitchCase(
                    switch=classes[p['sw']],
                    cases=[(declared_label(lab), classes[c]) for lab, c in p['cases']],
                    name=None if p.get('unnamed') else p.get('name'),      # unnamed: the builder invents the id
                )
            elif p['kind'] == 'oneof':
                ann[p['kw']] = InputOneOf([classes[c] for c in p['cands']])
            elif p['kind'] == 'rec':
                ann[p['kw']] = RecurrentSubGraph(
                    start_node=classes[p['start']], dest_node=classes[p['dest']], max_iterations=p['max'],
                )
        if nid in starts:
            ann['additional_data'] = object

        def make(nid=nid, mode=n['mode']):
            # the engine promises a new node object per invocation (node.py get_instance); like a user node that
            # keeps scratch state on self, the generated body lets a reused instance show in its value
            if mode == 'coro':
                async def process(self, **kwargs):  # noqa: ANN001
                    reused = self.__dict__.get('_verif_used', False)
                    self.__dict__['_verif_used'] = True
                    return await rt.body_async(nid, kwargs, reused)
            else:
                def process(self, **kwargs):  # noqa: ANN001
                    reused = self.__dict__.get('_verif_used', False)
                    self.__dict__['_verif_used'] = True
                    return rt.body_sync(nid, kwargs, reused)

            def get_default(self, **kwargs):  # noqa: ANN001
                return rt.default(nid, kwargs)
            return process, get_default

        process, get_default = make()
        process.__annotations__ = ann
        tags = ()
        if n['mode'] == 'inline':
            tags = (NodeTag.non_async,)
        elif n['mode'] == 'process':
            tags = (NodeTag.process,)
        elif n['mode'] == 'coro' and n.get('cotag'):
            tags = (NodeTag.non_async,)      # run_node looks at coroutine-ness first: still a coroutine on the loop
        attrs = {
            'name': nid, 'verif_id': nid, 'process': process, 'get_default': get_default,
            'tags': tags, '__module__': 'verif_generated', '__doc__': 'generated node %s' % nid,
        }
        if n['attempts'] is not None:
            attrs['attempts'] = n['attempts']
        if n['delay'] is not None:
            attrs['delay'] = n['delay']
        if n['exceptions'] is not None:
            attrs['exceptions'] = tuple(rtm.EXC[x] for x in n['exceptions'])
            if len(n['exceptions']) == 1 and zlib.crc32(nid.encode()) % 2 == 1:
                # a single class instead of a tuple: valid for `except`, and what half of the users write
                attrs['exceptions'] = rtm.EXC[n['exceptions'][0]]
        if n['use_default']:
            attrs['use_default'] = True
        base = RecurrentProcessor if nid in dests else ProcessorBase
        if n.get('generic') and n['params']:
            # declared the reusable way: a generic basic node bound to its dependencies by build_node
            from ml_pipeline_engine.node import build_node
            gattrs = dict(attrs)
            gattrs['name'] = 'g_' + nid
            gproc = gattrs['process']
            gproc.__annotations__ = {}
            gbase = type('G_' + nid, (base,), gattrs)
            # ... with a constant dependency, unless the node has a default value (get_default is not given the
            # constants, the body is)
            consts = dict(GENERIC_CONST) if has_const(n) else None
            classes[nid] = build_node(gbase, node_name=nid, class_name='Generic' + nid,
                                      dependencies_default=consts, attrs={'verif_consts': dict(consts or {})}, **ann)
            continue
        classes[nid] = type('N_' + nid, (base,), attrs)
    return classes


def make_collab_classes(rt, prog):
    from ml_pipeline_engine.artifact_store.store.base import ArtifactStore

    class Events:
        async def on_pipeline_start(self, ctx):  # noqa: ANN001
            # like a manager that keeps per-run state on self: an instance that has already served another run shows
            mine = self.__dict__.setdefault('_verif_runs', set())
            mine.add(rtm.CUR_RUN.get())
            rt.log(e='Ev', r=rtm.CUR_RUN.get(), kind='pipeline_start', n='-', err=('noerr',), res=('nores',),
                   shared=len(mine) > 1)
            await rt.collab_call('ev')

        async def on_pipeline_complete(self, ctx, result):  # noqa: ANN001
            if result.error is None:
                res = ('value', rt.to_term(result.value))
            else:
                res = ('error', rt.err_token(result.error))
            rt.log(e='Ev', r=rtm.CUR_RUN.get(), kind='pipeline_complete', n='-', err=('noerr',), res=res)
            await rt.collab_call('ev')

        async def on_node_start(self, ctx, node_id):  # noqa: ANN001
            rt.log(e='Ev', r=rtm.CUR_RUN.get(), kind='node_start', n=rtm.short(node_id), err=('noerr',),
                   res=('nores',))
            await rt.collab_call('ev', rtm.short(node_id))

        async def on_node_complete(self, ctx, node_id, error):  # noqa: ANN001
            err = ('noerr',) if error is None else rt.err_token(error)
            rt.log(e='Ev', r=rtm.CUR_RUN.get(), kind='node_complete', n=rtm.short(node_id), err=err,
                   res=('nores',))
            await rt.collab_call('ev', rtm.short(node_id))

    class Events2:
        """a second, independent event manager (order of managers: Events, Events2)"""

        async def on_pipeline_start(self, ctx):  # noqa: ANN001
            await rt.collab_call('ev2', '-')

        async def on_pipeline_complete(self, ctx, result):  # noqa: ANN001
            await rt.collab_call('ev2', '-')
            if (rt.collab.get('ev2') or {}).get('raise_on_complete'):
                # a badly behaved manager NEXT TO the recording one (which never raises and must see every event once)
                raise RuntimeError('collaborator ev2 fails in on_pipeline_complete')

        async def on_node_start(self, ctx, node_id):  # noqa: ANN001
            await rt.collab_call('ev2', rtm.short(node_id))

        async def on_node_complete(self, ctx, node_id, error):  # noqa: ANN001
            await rt.collab_call('ev2', rtm.short(node_id))

    class EventsPartial:
        """a manager that is interested in the pipeline-level events only (registered FIRST when prog.collab has 'evp'):
        the managers after it must still get every event"""

        async def on_pipeline_start(self, ctx):  # noqa: ANN001
            return None

    Events.partial = EventsPartial

    class EventsFirst:
        """a badly behaved manager registered BEFORE the recording one (prog.collab has 'ev0'): it raises in its k-th
        callback; the managers after it must still be told about every event"""

        async def _call(self):
            await rt.collab_call('ev0', '-')

        async def on_pipeline_start(self, ctx):  # noqa: ANN001
            await self._call()

        async def on_pipeline_complete(self, ctx, result):  # noqa: ANN001
            await self._call()

        async def on_node_start(self, ctx, node_id):  # noqa: ANN001
            await self._call()

        async def on_node_complete(self, ctx, node_id, error):  # noqa: ANN001
            await self._call()

    Events.first = EventsFirst

    class Store(ArtifactStore):
        async def save(self, node_id, data):  # noqa: ANN001
            mine = self.__dict__.setdefault('_verif_runs', set())
            mine.add(rtm.CUR_RUN.get())
            rt.log(e='Save', r=rtm.CUR_RUN.get(), n=rtm.short(node_id), v=rt.to_term(data), shared=len(mine) > 1)
            await rt.collab_call('save', rtm.short(node_id))

        async def load(self, node_id):  # noqa: ANN001
            raise NotImplementedError

    return Events, Store, Events2


def build_chart(prog, rt, events=True, store=True, manager_cls=None):
    from ml_pipeline_engine.chart import PipelineChart
    from ml_pipeline_engine.dag_builders.annotation import build_dag

    classes = build_classes(prog, rt)
    dag = build_dag(input_node=classes[prog['input']], output_node=classes[prog['output']])
    if manager_cls is not None:
        dag.run_manager = manager_cls
    Events, Store, Events2 = make_collab_classes(rt, prog)
    managers = [Events] if events else []
    if events and 'evp' in (prog.get('collab') or {}):
        managers.insert(0, Events.partial)
    if events and 'ev0' in (prog.get('collab') or {}):
        managers.insert(0, Events.first)
    if events and 'ev2' in (prog.get('collab') or {}):
        managers.append(Events2)
    chart = PipelineChart(
        model_name='verif',
        entrypoint=dag,
        artifact_store=Store if store else None,
        event_managers=managers,
    )
    return chart, dag, classes


def oneof_head(consumer, idx):
    return 'input_one_of__%d___processor__%s' % (idx, consumer)


def parse_outcome(o):
    if ':' in o:
        a, b = o.split(':', 1)
        return [a, b]
    return [o]


def declared_deps(n):
    out = []
    for p in n['params']:
        if p['kind'] == 'input':
            out.append(p['node'])
        elif p['kind'] == 'switch':
            out.append(p['sw'])
            out.extend(c for _, c in p['cases'])
        elif p['kind'] == 'oneof':
            out.extend(p['cands'])
        elif p['kind'] == 'rec':
            out.append(p['dest'])
    return out


def ancestors(prog, nid, byid=None):
    byid = byid or node_by_id(prog)
    seen = set()
    stack = [nid]
    while stack:
        x = stack.pop()
        for d in declared_deps(byid[x]):
            if d not in seen:
                seen.add(d)
                stack.append(d)
    return seen


def mixed_failures(prog):
    """some run plans both an Exception and a BaseException failure (for different nodes): which one the engine
    meets first is up to the iteration order of its task set, so the model instance has no single successor there"""
    for r in prog.get('runs', ()):
        kinds = set()
        for outs in list(r.get('plan', {}).values()) + [o for seq in r.get('plan_it', {}).values() for o in seq]:
            for o in outs:
                if isinstance(o, str) and o.startswith('raise:'):
                    kinds.add(o.split(':', 1)[1] in ('B1', 'CE'))
        if kinds == {True, False}:
            return True
    return False


def is_ambiguous(prog):
    if any(r.get('recseq') for r in prog.get('runs', ())):
        return True      # bodies that are not functions of their arguments: no reference value
    """a node outside a recurrent sub-graph reads a node strictly inside it (DESIGN 4.2), or a
    recurrent start is shared by several destinations: pure dataflow does not determine a value"""
    byid = node_by_id(prog)
    recs = {(p['start'], p['dest']) for n in prog['nodes'] for p in n['params'] if p['kind'] == 'rec'}
    starts = [s for s, _ in recs]
    if len(starts) != len(set(starts)):
        return True
    for start, dest in recs:
        anc_dest = ancestors(prog, dest, byid) | {dest}
        inside = {m for m in anc_dest if m == start or start in ancestors(prog, m, byid)}
        for n in prog['nodes']:
            if n['id'] in inside:
                continue
            for d in declared_deps(n):
                if d in inside and d != dest:
                    return True
                if d == dest and not any(p['kind'] == 'rec' and p['dest'] == dest for p in n['params']):
                    return True
    return False


def plain_depths(prog):
    """longest path from the input node, for programs with plain Input marks only; else None"""
    byid = node_by_id(prog)
    if any(p['kind'] != 'input' for n in prog['nodes'] for p in n['params']):
        return None
    needed = ancestors(prog, prog['output'], byid) | {prog['output']}
    depth = {}
    for n in prog['nodes']:
        if n['id'] not in needed and n['id'] != prog['input']:
            depth[n['id']] = -1
            continue
        if n['id'] == prog['input']:
            depth[n['id']] = 0
        elif not n['params']:
            depth[n['id']] = 1
        else:
            depth[n['id']] = 1 + max(depth[p['node']] for p in n['params'])
    return depth


def to_tla(prog):
    """uniform-field JSON for TLC (every record of a kind carries the same field set)"""
    nodes = []
    order = {n['id']: i + 1 for i, n in enumerate(prog['nodes'])}
    starts = rec_starts(prog)
    kinds = {p['kind'] for n in prog['nodes'] for p in n['params']}
    for n in prog['nodes']:
        params = []
        for idx, p in enumerate(n['params']):
            assert p['kw'] > 'additional_data', 'parameter names must sort after additional_data'
            params.append({
                'kw': p['kw'], 'kind': p['kind'],
                'node': p.get('node', p.get('dest', '-')),
                'sw': p.get('sw', '-'),
                'cases': [[lab, c] for lab, c in p.get('cases', [])],
                'cands': list(p.get('cands', [])),
                'start': p.get('start', '-'),
                'max': int(p.get('max', 0)),
                'head': oneof_head(n['id'], idx) if p['kind'] == 'oneof' else '-',
            })
        params.sort(key=lambda q: q['kw'])
        excs = n['exceptions'] if n['exceptions'] is not None else ['Exception']      # []: configured, matches nothing
        nodes.append({
            'id': n['id'], 'params': params, 'mode': n['mode'],
            'attempts': int(n['attempts'] or 1),
            'delay': int(round((n['delay'] or 0) * 1000)),
            'excs': list(excs),
            'use_default': bool(n['use_default']),
            'is_start': n['id'] in starts,
            'const': [[k, ['s', v]] for k, v in sorted(GENERIC_CONST.items())] if has_const(n) else [],
        })
    runs = []
    ids = [n['id'] for n in prog['nodes']]
    for r in prog['runs']:
        inp = sorted(r['input'].items())
        runs.append({
            'input': [[k, ['s', v]] for k, v in inp],
            'plan': {i: [parse_outcome(o) for o in (r['plan'].get(i) or ['ok'])] for i in ids},
            'recreq': {i: int(r['recreq'].get(i, -1)) for i in ids},
            'recfalsy': {i: i in r.get('recfalsy', ()) for i in ids},
            'recnone': {i: [int(x) for x in r.get('recnone', {}).get(i, [])] for i in ids},
            'plan_it': {i: [[parse_outcome(o) for o in ep] for ep in (r.get('plan_it', {}).get(i) or [])] for i in ids},
        })
    byid = node_by_id(prog)
    rec_inside = set()
    for n in prog['nodes']:
        for p in n['params']:
            if p['kind'] == 'rec':
                anc = ancestors(prog, p['dest'], byid) | {p['dest']}
                rec_inside |= {m for m in anc if m == p['start'] or p['start'] in ancestors(prog, m, byid)}
    rec_members = {i: ['-'] for i in ids}
    for n in prog['nodes']:
        for q in n['params']:
            if q['kind'] == 'rec':
                anc = ancestors(prog, q['dest'], byid) | {q['dest']}
                rec_members[q['dest']] = sorted(m for m in anc if m == q['start'] or q['start'] in ancestors(prog, m, byid))
    depth = plain_depths(prog)
    slack = sum(x['delay'] * max(0, x['attempts'] - 1) for x in nodes)
    return {'name': prog.get('name', '?'), 'fp': fingerprint(prog), 'nodes': nodes, 'ids': ids,
            'input': prog['input'], 'output': prog['output'], 'runs': runs, 'order': order,
            'has_switch': 'switch' in kinds, 'has_oneof': 'oneof' in kinds, 'has_rec': 'rec' in kinds,
            'plain': depth is not None, 'depth': depth if depth is not None else {i: -1 for i in ids},
            'slack': slack, 'amb': is_ambiguous(prog), 'rec_inside': sorted(rec_inside) or ['-'], 'rec_members': rec_members,
            'case_nodes': sorted({c for n in prog['nodes'] for q in n['params'] if q['kind'] == 'switch' for _, c in q['cases']}) or ['-']}
