"""./check selftest  - demonstrate that the specifications are bound to the code (DESIGN 5.3):
 (a) a recorded execution of the real engine is accepted; the same execution with one field corrupted / one line
     dropped / one line duplicated is rejected by level O;
 (b) Engine.tla with one rule flipped no longer conforms: the replay of its state graph on the real engine diverges.
"""
import copy
import os
import shutil
import sys
import tempfile

from harness import corpus
from harness import driver
from harness import programs
from harness import tlc
from harness.runtime import to_json


def corruptions():
    def swap_kw(L):
        for x in L:
            if x['e'] == 'BodyStart' and len(x['kw']) >= 2:
                x['kw'][0][1], x['kw'][1][1] = x['kw'][1][1], x['kw'][0][1]
                return True

    def drop_complete(L):
        i = [i for i, x in enumerate(L) if x['e'] == 'Ev' and x['kind'] == 'node_complete']
        if i:
            del L[i[0]]
            return True

    def dup_start(L):
        i = [i for i, x in enumerate(L) if x['e'] == 'BodyStart']
        if i:
            L.insert(i[-1] + 1, copy.deepcopy(L[i[-1]]))
            return True

    def wrong_value(L):
        for x in L:
            if x['e'] == 'RunReturn' and x['kind'] == 'value':
                x['v'] = ['v', 'nobody', []]
                return True

    def drop_save(L):
        i = [i for i, x in enumerate(L) if x['e'] == 'Save']
        if i:
            del L[i[0]]
            return True

    def late_event(L):
        i = [i for i, x in enumerate(L) if x['e'] == 'RunReturn']
        if i:
            L.insert(i[0] + 1, {'e': 'Ev', 'r': 1, 'kind': 'node_start', 'n': L[3].get('n', 'A'), 'err': ['noerr'], 'res': ['nores']})
            return True

    def fake_stuck(L):
        for x in L:
            if x['e'] == 'Quiescent':
                x['gates'] = 0
                x['timers'] = 0
                return True

    def early_start(L):
        bs = [i for i, x in enumerate(L) if x['e'] == 'BodyStart']
        be = [i for i, x in enumerate(L) if x['e'] == 'BodyEnd']
        if len(bs) >= 2 and be:
            x = L.pop(bs[-1])
            L.insert(be[0], x)
            return True
    return [swap_kw, drop_complete, dup_start, wrong_value, drop_save, late_event, fake_stuck, early_start]


SPEC_FLIPS = [
    ('_run_node finally no longer notifies the descendants',
     'LET S1 == Notify(NotifyDesc(SetEvent(S, n), n), "run")', 'LET S1 == Notify(SetEvent(S, n), "run")'),
    ('readiness ignores Recurrent results',
     'Ready(S, D, n) == \\A p \\in Preds(S, D, n) : HasRes(S, p) /\\ ~IsRec(S.res[p])', 'Ready(S, D, n) == \\A p \\in Preds(S, D, n) : HasRes(S, p)'),
    ('the launch loop does not create a task per node (awaits inline)',
     'IN  DagLoop(SetTop(S1, t, [f EXCEPT !.i = @ + 1, !.locals = Append(@, LastTask(S1))]), t)',
     'IN  SetTop(S1, t, [f EXCEPT !.i = @ + 1, !.locals = Append(@, LastTask(S1))])'),
    ('the result is stored before the artifact is saved',
     'CollabThen([S1 EXCEPT !.saves = Append(@, n)], t, "save", "saved")',
     'CollabThen([S1 EXCEPT !.saves = Append(@, n), !.res[n] = r, !.hid = @ \\ {n}], t, "save", "saved")', {'save': 'yield'}),
]


def run():
    driver.install_fake_pools()
    ok = True
    progs = {p['name']: p for p in corpus.all_programs()}
    # (a) corrupted traces
    names = ['rhombus', 'retry3#e_ok', 'oneof_two#k1fails']
    ptla = []
    traces = []
    expect = {}
    for pi, name in enumerate(names, 1):
        p = progs[name]
        ptla.append(programs.to_tla(p))
        ex = driver.Execution(p)
        lines = to_json(ex.run(driver.RandomPolicy(7, 0.8)))
        traces.append(tlc.make_trace('%s|orig' % name, pi, lines))
        expect['%s|orig' % name] = False
        for f in corruptions():
            L = copy.deepcopy(lines)
            if f(L):
                tid = '%s|%s' % (name, f.__name__)
                traces.append(tlc.make_trace(tid, pi, L))
                expect[tid] = True
    verdicts, _ = tlc.validate_batch(ptla, traces)
    for tid in sorted(expect):
        rejected = bool(verdicts[tid])
        good = rejected == expect[tid]
        ok = ok and good
        print('%s level-O %-45s %s %s' % ('PASS' if good else 'FAIL', tid, 'rejected' if rejected else 'accepted',
                                          sorted({c for c, _ in verdicts[tid]})[:4]))
    # (b) flipped rules in Engine.tla must make the conformance replay diverge
    from harness import replay
    base = tlc.SPEC_DIR
    text = open(os.path.join(base, 'Engine.tla')).read()
    witnesses = ['rhombus', 'rec_simple#it1', 'rec_dest_two_scopes#it1', 'switch_simple#l1']
    for what, old, new, *rest in SPEC_FLIPS:
        collab = rest[0] if rest else None
        old = old.replace('\\\\', '\\')
        new = new.replace('\\\\', '\\')
        if old not in text:
            print('FAIL spec-flip %s: anchor not found in Engine.tla' % what)
            ok = False
            continue
        tmp = tempfile.mkdtemp(prefix='verif_flip_')
        try:
            for fn in os.listdir(base):
                if os.path.isfile(os.path.join(base, fn)):
                    shutil.copy(os.path.join(base, fn), tmp)
            with open(os.path.join(tmp, 'Engine.tla'), 'w') as f:
                f.write(text.replace(old, new))
            tlc.SPEC_DIR = tmp
            diverged = None
            for w in witnesses:
                r = replay.replay_graph(progs[w], max_paths=400, collab=collab)
                if r['divergence']:
                    diverged = (w, r['divergence'].get('step'))
                    break
            good = diverged is not None
            ok = ok and good
            print('%s spec-flip %-62s %s' % ('PASS' if good else 'FAIL', what, 'replay diverges on %s at step %s' % diverged if good
                                             else 'NOT DETECTED'))
        finally:
            tlc.SPEC_DIR = base
            shutil.rmtree(tmp, ignore_errors=True)
    # Pools.tla / PoolsTrace.tla: recorded histories of the real registries are accepted; the same histories with one
    # reply corrupted are rejected with the expected class of verdict
    import copy as _copy
    from harness import pools
    hs = [h for h in pools.run_histories(pools.directed()) if 'error' not in h]
    byid = {h['id']: h for h in hs}
    cases = [('orig', None, None, None, set())]
    cases += [('run_without_pool', 'dir_no_manager', 'run', ['ran'], {'C17.pool'}),
              ('refused_with_pools', 'dir_all_ready', 'run', ['failfast'], {'C17.mode'}),
              ('partial_run', 'dir_nothing', 'run', ['partial'], {'C17.pool'}),
              ('registry_answers_differently', 'dir_first_wins', 'getT', ['obj', 't2'], {'drift.registry'})]
    for name, hid, opname, newreply, expect in cases:
        if hid is None:
            batch = hs
        else:
            h = _copy.deepcopy(byid[hid])
            idx = [i for i, o in enumerate(h['ops']) if o['op'] == opname][-1]
            h['ops'][idx]['reply'] = newreply
            batch = [h]
        verd, _ = tlc.run_batch('PoolsTrace', {'histories': batch}, len(batch))
        got = {c for v in verd.values() for c, _ in v}
        good = got == expect
        ok = ok and good
        print('%s Pools %-40s %s %s' % ('PASS' if good else 'FAIL', name, 'accepted' if not got else 'rejected', sorted(got)))
    print('selftest', 'OK' if ok else 'FAILED')
    return 0 if ok else 1
