"""Curated corpus (DESIGN Appendix B): fixed, independent of VERIF_SEED.

Each entry: a program (see programs.py) with one or more run plans.  `tags` say which property
families the program belongs to.
"""
import copy

from .programs import normalise


def N(id, *params, **kw):  # noqa: N802
    d = dict(id=id, params=list(params))
    d.update(kw)
    return d


def I(kw, node):  # noqa: N802, E743
    return dict(kw=kw, kind='input', node=node)


def SW(kw, sw, cases, name=None):  # noqa: N802
    d = dict(kw=kw, kind='switch', sw=sw, cases=[list(c) for c in cases])
    if name:
        d['name'] = name
    return d


def OO(kw, cands):  # noqa: N802
    return dict(kw=kw, kind='oneof', cands=list(cands))


def RC(kw, start, dest, mx):  # noqa: N802
    return dict(kw=kw, kind='rec', start=start, dest=dest, max=mx)


def P(name, nodes, inp, out, runs=None, tags=(), **extra):  # noqa: N802
    prog = dict(name=name, nodes=nodes, input=inp, output=out, tags=list(tags))
    if runs is not None:
        prog['runs'] = runs
    prog.update(extra)
    return normalise(prog)


def R(plan=None, recreq=None, inp=None, recfalsy=(), plan_it=None, recnone=None):  # noqa: N802
    return dict(input=inp or {'x': 'tokA'}, plan=plan or {}, recreq=recreq or {}, recfalsy=list(recfalsy), plan_it=plan_it or {},
                recnone=recnone or {})


def variants(prog, runs_list, suffixes=None):
    out = []
    for i, runs in enumerate(runs_list):
        q = copy.deepcopy(prog)
        q['runs'] = [normalise_run(r) for r in runs]
        q['name'] = '%s#%s' % (prog['name'], suffixes[i] if suffixes else i)
        out.append(q)
    return out


def normalise_run(r):
    r = dict(r)
    r.setdefault('input', {'x': 'tokA'})
    r.setdefault('plan', {})
    r.setdefault('recreq', {})
    r.setdefault('recfalsy', [])
    r.setdefault('plan_it', {})
    r.setdefault('recnone', {})
    return r


def plain_programs():
    out = []
    out.append(P('chain3', [N('A'), N('B', I('p1', 'A')), N('C', I('p1', 'B'))], 'A', 'C', tags=['plain']))
    out.append(P('rhombus', [N('A'), N('B', I('p1', 'A')), N('C', I('p1', 'A')),
                             N('D', I('p1', 'B'), I('p2', 'C'))], 'A', 'D', tags=['plain']))
    out.append(P('rhombus_modes', [N('A', mode='inline'), N('B', I('p1', 'A'), mode='thread'),
                                   N('C', I('p1', 'A'), mode='process'),
                                   N('D', I('p1', 'B'), I('p2', 'C'), mode='coro')], 'A', 'D', tags=['plain', 'modes']))
    out.append(P('fan3', [N('A'), N('B', I('p1', 'A')), N('C', I('p1', 'A')), N('D', I('p1', 'A')),
                          N('E', I('p1', 'B'), I('p2', 'C'), I('p3', 'D'))], 'A', 'E', tags=['plain']))
    out.append(P('ladder', [N('A'), N('B', I('p1', 'A')), N('C', I('p1', 'A'), I('p2', 'B')),
                            N('D', I('p1', 'B'), I('p2', 'C')), N('E', I('p1', 'C'), I('p2', 'D'))],
                 'A', 'E', tags=['plain']))
    # the repository's demo model shape: mark-free data sources hang off the input implicitly
    out.append(P('demo_model', [N('A'), N('F1'), N('F2', I('p1', 'A')), N('V', I('p1', 'F1'), I('p2', 'F2')),
                                N('M', I('p1', 'V')), N('O', I('p1', 'M'), I('p2', 'F1'))],
                 'A', 'O', tags=['plain']))
    out.append(P('long_short', [N('A'), N('L1', I('p1', 'A')), N('L2', I('p1', 'L1')), N('L3', I('p1', 'L2')),
                                N('S', I('p1', 'A')), N('O', I('p1', 'L3'), I('p2', 'S'))], 'A', 'O', tags=['plain']))
    out.append(P('long_short2', [N('A'), N('S', I('p1', 'A')), N('L1', I('p1', 'A')), N('L2', I('p1', 'L1')),
                                 N('L3', I('p1', 'L2')), N('L4', I('p1', 'L3')), N('T', I('p1', 'S')),
                                 N('O', I('p1', 'L4'), I('p2', 'T'))], 'A', 'O', tags=['plain']))
    out.append(P('rhombus_generic', [N('A'), N('B', I('p1', 'A'), mode='thread', generic=True),
                                     N('C', I('p1', 'A'), mode='thread', generic=True),
                                     N('D', I('p1', 'B'), I('p2', 'C'), mode='coro', generic=True)], 'A', 'D',
                 tags=['plain', 'generic']))
    # coroutine bodies that carry the non_async tag, next to inline and pooled siblings
    out.append(P('fan_tagged', [N('A', cotag=True), N('B', I('p1', 'A'), mode='inline'), N('C', I('p1', 'A'), cotag=True),
                                N('D', I('p1', 'A'), mode='thread'), N('E', I('p1', 'A'), cotag=True),
                                N('F', I('p1', 'B'), I('p2', 'C'), I('p3', 'D'), I('p4', 'E'))], 'A', 'F',
                 tags=['plain', 'modes']))
    out.append(P('diamond_deep', [N('A'), N('B', I('p1', 'A')), N('C', I('p1', 'B')), N('D', I('p1', 'A')),
                                  N('E', I('p1', 'C'), I('p2', 'D'))], 'A', 'E', tags=['plain']))
    return out


def failure_programs():
    out = []
    rh = P('rhombus', [N('A'), N('B', I('p1', 'A')), N('C', I('p1', 'A')),
                       N('D', I('p1', 'B'), I('p2', 'C'))], 'A', 'D', tags=['fail'])
    out += variants(rh, [
        [R({'B': ['raise:E1']})],
        [R({'B': ['raise:E1'], 'C': ['raise:E2']})],
        [R({'A': ['raise:E1']})],
        [R({'D': ['raise:E3']})],
        [R({'B': ['none']})],
        [R({'B': ['falsy'], 'C': ['none']})],
        [R({'C': ['raise:B1']})],
    ], ['failB', 'failBC', 'failA', 'failD', 'noneB', 'falsyB_noneC', 'baseC'])
    # an exception whose instances are falsy; a CancelledError that the body raises on its own (BaseException)
    out += variants(rh, [[R({'B': ['raise:E0']})], [R({'C': ['raise:CE']})], [R({'B': ['raise:E0'], 'C': ['raise:CE']})]],
                    ['falsyexcB', 'cancelexcC', 'falsyB_cancelC'])
    # a StopIteration escapes from a pooled body (asyncio cannot put it into a future as it is)
    rh_t = P('rhombus_pool', [N('A'), N('B', I('p1', 'A'), mode='thread', attempts=2, use_default=True), N('C', I('p1', 'A'), mode='process'),
                              N('D', I('p1', 'B'), I('p2', 'C'))], 'A', 'D', tags=['fail', 'retry', 'plain'])
    out += variants(rh_t, [[R({'B': ['raise:SI', 'raise:SI']})], [R({'B': ['raise:SI', 'ok']})], [R({'C': ['raise:SI']})]],
                    ['si_default', 'si_ok', 'si_process'])
    # a node's own timeout: TimeoutError is an Exception (and, since 3.11, asyncio.TimeoutError)
    out += variants(rh, [[R({'B': ['raise:ET']})], [R({'D': ['raise:ET']})]], ['timeoutB', 'timeoutD'])
    return out


def retry_programs():
    out = []
    base = [N('A'), N('B', I('p1', 'A'), attempts=3, delay=0.3), N('C', I('p1', 'A')),
            N('D', I('p1', 'B'), I('p2', 'C'))]
    p = P('retry3', base, 'A', 'D', tags=['retry', 'plain'])
    out += variants(p, [
        [R({'B': ['raise:E1', 'ok']})],
        [R({'B': ['raise:E1', 'raise:E2', 'ok']})],
        [R({'B': ['raise:E1', 'raise:E1', 'raise:E1']})],
        [R({'B': ['raise:E1', 'raise:E1', 'raise:E1'], 'C': ['raise:E2']})],
    ], ['e_ok', 'e_e_ok', 'eee', 'eee_c'])
    p = P('retry_filter', [N('A'), N('B', I('p1', 'A'), attempts=3, delay=0, exceptions=['E1']), N('C', I('p1', 'A')),
                           N('D', I('p1', 'B'), I('p2', 'C'))], 'A', 'D', tags=['retry'])
    out += variants(p, [
        [R({'B': ['raise:E1', 'ok']})],
        [R({'B': ['raise:E2', 'ok']})],
        [R({'B': ['raise:E1', 'raise:E2', 'ok']})],
        [R({'B': ['raise:B1', 'ok']})],
    ], ['e1_ok', 'e2', 'e1_e2', 'base'])
    p = P('retry_default', [N('A'), N('B', I('p1', 'A'), attempts=2, delay=0.1, use_default=True),
                            N('C', I('p1', 'A')), N('D', I('p1', 'B'), I('p2', 'C'))], 'A', 'D', tags=['retry', 'plain'])
    out += variants(p, [
        [R({'B': ['raise:E1', 'raise:E1']})],
        [R({'B': ['raise:E1', 'ok']})],
        [R({'B': ['raise:B1']})],
    ], ['dflt', 'ok2', 'base'])
    p = P('default_filter', [N('A'), N('B', I('p1', 'A'), attempts=3, exceptions=['E1'], use_default=True),
                             N('D', I('p1', 'B'))], 'A', 'D', tags=['retry'])
    out += variants(p, [
        [R({'B': ['raise:E2']})],
        [R({'B': ['raise:E1', 'raise:E2']})],
    ], ['e2_dflt', 'e1_e2_dflt'])
    # a node that asks to be retried after ANY BaseException (and must still not be restarted when the engine stops it)
    p = P('retry_base', [N('A'), N('B', I('p1', 'A'), attempts=3, delay=0, exceptions=['BaseException']), N('C', I('p1', 'A')),
                         N('D', I('p1', 'B'), I('p2', 'C'))], 'A', 'D', tags=['retry'])
    out += variants(p, [[R({'B': ['raise:B1', 'ok']})], [R({})], [R({'B': ['raise:B1', 'raise:E1', 'raise:B1']})]], ['b1_ok', 'ok', 'b1_e1_b1'])
    # an empty exceptions setting: configured, and nothing matches it (no retry; the default still applies)
    p = P('retry_none_matches', [N('A'), N('B', I('p1', 'A'), attempts=3, delay=0, exceptions=[]), N('C', I('p1', 'A')),
                                 N('D', I('p1', 'B'), I('p2', 'C'))], 'A', 'D', tags=['retry'])
    out += variants(p, [[R({'B': ['raise:E1', 'ok']})], [R({})]], ['e1', 'ok'])
    p = P('retry_two', [N('A'), N('B', I('p1', 'A'), attempts=2, delay=0.2), N('C', I('p1', 'A'), attempts=3, delay=0.1),
                        N('D', I('p1', 'B'), I('p2', 'C'))], 'A', 'D', tags=['retry', 'plain'])
    out += variants(p, [
        [R({'B': ['raise:E1', 'ok'], 'C': ['raise:E1', 'raise:E1', 'ok']})],
        [R({'B': ['raise:E1', 'raise:E1'], 'C': ['raise:E1', 'raise:E1', 'ok']})],
    ], ['both_ok', 'b_fails'])
    return out


def switch_programs():
    out = []
    # int labels (0 is falsy)
    nodes = [N('A'), N('S', I('p1', 'A')), N('C0', I('p1', 'A')), N('C1', I('p1', 'A')), N('C2', I('p1', 'A')),
             N('O', SW('p1', 'S', [('0', 'C0'), ('1', 'C1'), ('2', 'C2')], name='il'))]
    out += variants(P('switch_int_labels', nodes, 'A', 'O', tags=['switch']),
                    [[R({'S': ['label:0']})], [R({'S': ['label:2']})], [R({'S': ['label:7']})]], ['zero', 'two', 'unknown'])
    # a case labelled with a falsy value ('')
    nodes = [N('A'), N('S', I('p1', 'A')), N('C1', I('p1', 'A')), N('C2', I('p1', 'A')),
             N('O', SW('p1', 'S', [('', 'C1'), ('l2', 'C2')], name='fl'))]
    out += variants(P('switch_falsy_label', nodes, 'A', 'O', tags=['switch']),
                    [[R({'S': ['label:l2']})], [R({'S': ['label:']})], [R({'S': ['label:l2'], 'C1': ['raise:E1']})]],
                    ['l2', 'empty', 'l2_c1fails'])
    # two UNNAMED switches decided by the same node, with different cases, for two consumers
    def U(kw, sw, cases):  # noqa: N802
        return dict(SW(kw, sw, cases), unnamed=True)
    nodes = [N('A'), N('S', I('p1', 'A')), N('C1', I('p1', 'A')), N('C2', I('p1', 'A')), N('C3', I('p1', 'A')), N('C4', I('p1', 'A')),
             N('W1', U('p1', 'S', [('l1', 'C1'), ('l2', 'C2')])), N('W2', U('p1', 'S', [('l1', 'C3'), ('l2', 'C4')])),
             N('O', I('p1', 'W1'), I('p2', 'W2'))]
    out += variants(P('switch_two_unnamed', nodes, 'A', 'O', tags=['switch']),
                    [[R({'S': ['label:l1']})], [R({'S': ['label:l2']})], [R({'S': ['label:l3']})]], ['l1', 'l2', 'unknown'])
    # simple switch: S decides between C1 and C2; consumer O
    nodes = [N('A'), N('S', I('p1', 'A')), N('C1', I('p1', 'A')), N('X', I('p1', 'A')), N('C2', I('p1', 'X')),
             N('O', SW('p1', 'S', [('l1', 'C1'), ('l2', 'C2')], name='sw1'))]
    p = P('switch_simple', nodes, 'A', 'O', tags=['switch'])
    out += variants(p, [
        [R({'S': ['label:l1']})],
        [R({'S': ['label:l2']})],
        [R({'S': ['label:l1'], 'X': ['raise:E1']})],
        [R({'S': ['label:l2'], 'X': ['raise:E1']})],
        [R({'S': ['label:l1'], 'C1': ['raise:E1']})],
    ], ['l1', 'l2', 'l1_xfails', 'l2_xfails', 'l1_c1fails'])
    out += variants(P('switch_unknown', nodes, 'A', 'O', tags=['switch', 'D3']),
                    [[R({'S': ['label:zz']})]], ['zz'])
    # nested switch: case C2 itself consumes a switch
    nodes = [N('A'), N('S1', I('p1', 'A')), N('S2', I('p1', 'A')), N('K1', I('p1', 'A')), N('K2', I('p1', 'A')),
             N('C1', I('p1', 'A')), N('C2', SW('p1', 'S2', [('a', 'K1'), ('b', 'K2')], name='inner')),
             N('O', SW('p1', 'S1', [('l1', 'C1'), ('l2', 'C2')], name='outer'))]
    p = P('switch_nested', nodes, 'A', 'O', tags=['switch'])
    out += variants(p, [
        [R({'S1': ['label:l1'], 'S2': ['label:a']})],
        [R({'S1': ['label:l2'], 'S2': ['label:a']})],
        [R({'S1': ['label:l2'], 'S2': ['label:b']})],
    ], ['l1', 'l2a', 'l2b'])
    # two switches in one consumer + shared case node
    nodes = [N('A'), N('S1', I('p1', 'A')), N('S2', I('p1', 'A')), N('C1', I('p1', 'A')), N('C2', I('p1', 'A')),
             N('C3', I('p1', 'C1')),
             N('O', SW('p1', 'S1', [('l1', 'C1'), ('l2', 'C2')], name='swa'),
               SW('p2', 'S2', [('l1', 'C3'), ('l2', 'C2')], name='swb'))]
    p = P('switch_multi', nodes, 'A', 'O', tags=['switch'])
    out += variants(p, [
        [R({'S1': ['label:l1'], 'S2': ['label:l1']})],
        [R({'S1': ['label:l2'], 'S2': ['label:l2']})],
        [R({'S1': ['label:l1'], 'S2': ['label:l2']})],
        [R({'S1': ['label:l2'], 'S2': ['label:l1']})],
    ], ['11', '22', '12', '21'])
    # the repository's concurrent switch shape (test_concurrent_switch)
    nodes = [N('A'), N('T3C', I('p1', 'A')), N('T3N', I('p1', 'A')),
             N('IS', SW('p1', 'T3C', [('ident', 'T3N')], name='third_a')),
             N('F1C', I('p1', 'A')), N('DN', SW('p1', 'T3C', [('ident', 'T3N')], name='third_b')),
             N('F2C', I('p1', 'A')),
             N('O', SW('p1', 'F1C', [('ident', 'IS')], name='first'), SW('p2', 'F2C', [('double', 'DN')], name='second'))]
    out += variants(P('switch_concurrent', nodes, 'A', 'O', tags=['switch', 'shared']),
                    [[R({'T3C': ['label:ident'], 'F1C': ['label:ident'], 'F2C': ['label:double']})]], ['ok'])
    # D4: selected case also consumed directly by the same consumer
    nodes = [N('A'), N('S', I('p1', 'A')), N('C1', I('p1', 'A')), N('C2', I('p1', 'A')),
             N('O', SW('p1', 'S', [('l1', 'C1'), ('l2', 'C2')], name='sw1'), I('p2', 'C1'))]
    p = P('switch_case_also_input', nodes, 'A', 'O', tags=['switch', 'D4'])
    out += variants(p, [[R({'S': ['label:l1']})], [R({'S': ['label:l2']})]], ['l1', 'l2'])
    # a case that is also consumed directly and sits deeper in the launch order than the switch node
    nodes = [N('A'), N('S', I('p1', 'A')), N('Q1', I('p1', 'A')), N('Q2', I('p1', 'Q1')), N('C1', I('p1', 'Q2')),
             N('C2', I('p1', 'A')), N('O', SW('p1', 'S', [('l1', 'C1'), ('l2', 'C2')], name='sw1'), I('p2', 'C1'))]
    p = P('switch_deep_case_also_input', nodes, 'A', 'O', tags=['switch'])
    out += variants(p, [[R({'S': ['label:l1']})], [R({'S': ['label:l2']})]], ['l1', 'l2'])
    # the selected case is also an input of ANOTHER node and still in flight when the switch is resolved: only
    # the case's own completion can wake the switch's consumer (through the switch node)
    nodes = [N('A'), N('S', I('p1', 'A')), N('C1', I('p1', 'A')), N('C2', I('p1', 'A')),
             N('W', SW('p1', 'S', [('l1', 'C1'), ('l2', 'C2')], name='sw1')), N('X', I('p1', 'C1')),
             N('O', I('p1', 'W'), I('p2', 'X'))]
    p = P('switch_case_other_consumer', nodes, 'A', 'O', tags=['switch', 'shared'])
    out += variants(p, [[R({'S': ['label:l1']})], [R({'S': ['label:l2']})]], ['l1', 'l2'])
    # ... and the other consumer of the case comes after the switch's consumer in the launch order, so the launch
    # loop is parked on the switch's consumer when the case completes
    nodes = [N('A'), N('S', I('p1', 'A')), N('C1', I('p1', 'A')), N('C2', I('p1', 'A')),
             N('W', SW('p1', 'S', [('l1', 'C1'), ('l2', 'C2')], name='sw1')), N('O', I('p1', 'W'), I('p2', 'C1'))]
    p = P('switch_case_later_consumer', nodes, 'A', 'O', tags=['switch', 'shared'])
    out += variants(p, [[R({'S': ['label:l1']})], [R({'S': ['label:l2']})]], ['l1', 'l2'])
    # two switches select the same case, and that case itself consumes a nested switch: the second switch finds the
    # case already computed, but its sub-pipeline is not empty (synthetic nodes are never "processed")
    nodes = [N('A'), N('S1', I('p1', 'A')), N('S2', I('p1', 'A')), N('SI', I('p1', 'A')), N('J1', I('p1', 'A')), N('J2', I('p1', 'A')),
             N('C', SW('p1', 'SI', [('a', 'J1'), ('b', 'J2')], name='inner')), N('E', I('p1', 'A')),
             N('U', SW('p1', 'S1', [('l1', 'C'), ('l2', 'E')], name='first')), N('Q1', I('p1', 'U')),
             N('V', SW('p1', 'S2', [('l1', 'C'), ('l2', 'E')], name='second'), I('p2', 'Q1')), N('O', I('p1', 'U'), I('p2', 'V'))]
    p = P('switch_shared_case_nested', nodes, 'A', 'O', tags=['switch', 'shared'])
    out += variants(p, [[R({'S1': ['label:l1'], 'S2': ['label:l1'], 'SI': ['label:a']})],
                        [R({'S1': ['label:l1'], 'S2': ['label:l2'], 'SI': ['label:b']})]], ['same', 'diff'])
    # the switch node returns None / a falsy value: no such label
    p = P('switch_none_label', [N('A'), N('S', I('p1', 'A')), N('C1', I('p1', 'A')), N('C2', I('p1', 'A')),
                                N('O', SW('p1', 'S', [('l1', 'C1'), ('l2', 'C2')], name='sw1'))], 'A', 'O', tags=['switch'])
    out += variants(p, [[R({'S': ['none']})], [R({'S': ['falsy']})]], ['none', 'falsy'])
    # a failing node is the case of two switches, one inside a one-of candidate, one feeding a node outside
    nodes = [N('A'), N('F', I('p1', 'A')), N('S1', I('p1', 'A')), N('S2', I('p1', 'A')), N('G', I('p1', 'A')),
             N('K1', SW('p1', 'S1', [('l1', 'F'), ('l2', 'G')], name='inner')), N('K2', I('p1', 'A')),
             N('M', OO('p1', ['K1', 'K2'])), N('Q1', I('p1', 'A')), N('Q2', I('p1', 'Q1')),
             N('R', SW('p1', 'S2', [('l1', 'F'), ('l2', 'G')], name='outer'), I('p2', 'Q2')), N('O', I('p1', 'M'), I('p2', 'R'))]
    p = P('switch_case_shared_with_oneof', nodes, 'A', 'O', tags=['switch', 'oneof', 'shared'])
    out += variants(p, [[R({'F': ['raise:E1'], 'S1': ['label:l1'], 'S2': ['label:l1']})],
                        [R({'F': ['raise:E1'], 'S1': ['label:l1'], 'S2': ['label:l2']})],
                        [R({'S1': ['label:l1'], 'S2': ['label:l1']})]], ['f_both', 'f_inner_only', 'ok'])
    # the deciding node of a switch outside a one-of is also needed by a candidate and fails; the one-of scope may
    # execute it first (the main launch loop is parked on Z, which waits for the slow Y)
    nodes = [N('A'), N('Y', I('p1', 'A')), N('Z', I('p1', 'Y')), N('Q', I('p1', 'A')), N('S', I('p1', 'Q')),
             N('K1', I('p1', 'S')), N('K2', I('p1', 'A')), N('M', OO('p1', ['K1', 'K2'])), N('C1', I('p1', 'A')),
             N('C2', I('p1', 'A')), N('W', SW('p1', 'S', [('l1', 'C1'), ('l2', 'C2')], name='sw1')),
             N('O', I('p1', 'M'), I('p2', 'W'), I('p3', 'Z'))]
    p = P('switch_decider_shared_with_oneof', nodes, 'A', 'O', tags=['switch', 'oneof', 'shared'])
    out += variants(p, [[R({'S': ['raise:E1']})], [R({'S': ['label:l1']})]], ['sfails', 'ok'])
    # switch node consumed as a plain input too
    nodes = [N('A'), N('S', I('p1', 'A')), N('C1', I('p1', 'A')), N('C2', I('p1', 'A')),
             N('O', SW('p1', 'S', [('l1', 'C1'), ('l2', 'C2')], name='sw1'), I('p2', 'S'))]
    out += variants(P('switch_sw_also_input', nodes, 'A', 'O', tags=['switch']),
                    [[R({'S': ['label:l1']})], [R({'S': ['label:l2']})]], ['l1', 'l2'])
    return out


def oneof_programs():
    out = []
    # a candidate that is also an ordinary input of another node (X): X must get it whether or not the one-of tries it
    nodes = [N('A'), N('P1', I('p1', 'A')), N('P2', I('p1', 'A')), N('M', OO('p1', ['P1', 'P2'])), N('X', I('p1', 'P2')),
             N('O', I('p1', 'M'), I('p2', 'X'))]
    out += variants(P('cand_also_input', nodes, 'A', 'O', tags=['oneof']),
                    [[R({})], [R({'P1': ['raise:E1']})], [R({'P2': ['raise:E2']})]], ['ok', 'p1fails', 'p2fails'])
    nodes = [N('A'), N('P1', I('p1', 'A')), N('P2', I('p1', 'A')), N('M', OO('p1', ['P1', 'P2'])), N('X', I('p1', 'P1')),
             N('O', I('p1', 'X'), I('p2', 'M'))]
    out += variants(P('cand_also_input_first', nodes, 'A', 'O', tags=['oneof']),
                    [[R({})], [R({'P1': ['raise:E1']})]], ['ok', 'p1fails'])
    # ... or of a candidate of another one-of: its failure fails that candidate, it is never delivered as a value
    nodes = [N('A'), N('P', I('p1', 'A')), N('Q', I('p1', 'A')), N('M', OO('p1', ['P', 'Q'])), N('C1', I('p1', 'P'), I('p2', 'M')),
             N('C2', I('p1', 'A')), N('O', OO('p1', ['C1', 'C2']))]
    out += variants(P('cand_input_of_other_candidate', nodes, 'A', 'O', tags=['oneof']),
                    [[R({'P': ['raise:E1']})], [R({})]], ['pfails', 'ok'])
    # the selected case of a switch is also a candidate of a one-of (and not the one that wins)
    nodes = [N('A'), N('K', I('p1', 'A')), N('P1', I('p1', 'A')), N('P2', I('p1', 'A')), N('X', I('p1', 'A')),
             N('M', OO('p1', ['P1', 'P2'])), N('W', SW('p1', 'K', [('l1', 'P2'), ('l2', 'X')], name='cac')),
             N('O', I('p1', 'M'), I('p2', 'W'))]
    out += variants(P('case_also_candidate', nodes, 'A', 'O', tags=['oneof', 'switch']),
                    [[R({'K': ['label:l1']})], [R({'K': ['label:l2']})], [R({'K': ['label:l1'], 'P1': ['raise:E1']})],
                     [R({'K': ['label:l1'], 'P2': ['raise:E2']})]], ['l1', 'l2', 'l1_p1fails', 'l1_p2fails'])
    # the one-of reaches its next candidate (X) while X is already running for the candidate that has just failed
    nodes = [N('A'), N('F', I('p1', 'A')), N('X', I('p1', 'A')), N('C1', I('p1', 'X'), I('p2', 'F')), N('O', OO('p1', ['C1', 'X']))]
    out += variants(P('next_candidate_already_running', nodes, 'A', 'O', tags=['oneof']), [[R({'F': ['raise:E1']})], [R({})]],
                    ['ffails', 'ok'])
    # a candidate that a sibling candidate needs through an intermediate node; ... that only a non-selected case needs
    nodes = [N('A'), N('X', I('p1', 'A')), N('W', I('p1', 'X')), N('C2', I('p1', 'W')), N('Z', I('p1', 'A')),
             N('O', OO('p1', ['X', 'C2', 'Z']))]
    out += variants(P('candidate_feeds_sibling_via_node', nodes, 'A', 'O', tags=['oneof']), [[R({'X': ['raise:E1']})], [R({})]],
                    ['xfails', 'ok'])
    nodes = [N('A'), N('X', I('p1', 'A')), N('W', I('p1', 'X')), N('C2', I('p1', 'W')), N('Z', I('p1', 'A')),
             N('O', OO('p1', ['Z', 'C2', 'X']))]
    out += variants(P('later_candidate_feeds_sibling_via_node', nodes, 'A', 'O', tags=['oneof']), [[R({})], [R({'Z': ['raise:E1']})]],
                    ['ok', 'zfails'])
    nodes = [N('A'), N('X', I('p1', 'A')), N('Z', I('p1', 'A')), N('DEC', I('p1', 'A')), N('Y', I('p1', 'X')), N('NN', I('p1', 'A')),
             N('O', OO('p1', ['X', 'Z']), SW('p2', 'DEC', [('y', 'Y'), ('n', 'NN')], name='hc'))]
    out += variants(P('candidate_input_of_unselected_case', nodes, 'A', 'O', tags=['oneof', 'switch']),
                    [[R({'DEC': ['label:n'], 'X': ['raise:E1']})], [R({'DEC': ['label:y']})]], ['n_xfails', 'y'])
    # a candidate whose only ordinary consumer is a hidden child: a sibling candidate / a candidate of another one-of
    nodes = [N('A'), N('C2', I('p1', 'A')), N('C1', I('p1', 'C2')), N('C0', I('p1', 'A')), N('O', OO('p1', ['C1', 'C2', 'C0']))]
    out += variants(P('cand_depends_on_sibling', nodes, 'A', 'O', tags=['oneof']),
                    [[R({'C2': ['raise:E1']})], [R({})], [R({'C1': ['raise:E1']})]], ['c2fails', 'ok', 'c1fails'])
    nodes = [N('A'), N('M', I('p1', 'A')), N('F', I('p1', 'M')), N('G', I('p1', 'A')), N('C1', I('p1', 'F')), N('C2', I('p1', 'A')),
             N('O', OO('p1', ['G', 'F']), OO('p2', ['C1', 'C2']))]
    out += variants(P('fallback_cand_feeds_other_candidate', nodes, 'A', 'O', tags=['oneof']), [[R({'F': ['raise:E1']})], [R({})]],
                    ['ffails', 'ok'])
    # a candidate that reaches a switch whose selected case consumes a second switch whose selected case fails
    nodes = [N('A'), N('K2', I('p1', 'A')), N('BAD', I('p1', 'A')), N('GOOD', I('p1', 'A')),
             N('DEEP', SW('p1', 'K2', [('bad', 'BAD'), ('good', 'GOOD')], name='inner')), N('FLAT', I('p1', 'A')),
             N('K1', I('p1', 'A')), N('MID', SW('p1', 'K1', [('deep', 'DEEP'), ('flat', 'FLAT')], name='outer')),
             N('C1', I('p1', 'MID')), N('C2', I('p1', 'A')), N('O', OO('p1', ['C1', 'C2']))]
    out += variants(P('oneof_nested_switch_fail', nodes, 'A', 'O', tags=['oneof', 'switch']),
                    [[R({'K1': ['label:deep'], 'K2': ['label:bad'], 'BAD': ['raise:E1']})],
                     [R({'K1': ['label:deep'], 'K2': ['label:good'], 'BAD': ['raise:E1']})]], ['bad', 'good'])
    # a one-of inside the selected case of a switch inside a candidate: running out of inner candidates fails the
    # candidate, not the run
    nodes = [N('A'), N('K', I('p1', 'A')), N('I1', I('p1', 'A')), N('I2', I('p1', 'A')), N('IN', OO('p1', ['I1', 'I2'])),
             N('CX', I('p1', 'A')), N('W', SW('p1', 'K', [('l1', 'IN'), ('l2', 'CX')], name='oso')), N('C1', I('p1', 'W')),
             N('C2', I('p1', 'A')), N('O', OO('p1', ['C1', 'C2']))]
    out += variants(P('oneof_switch_oneof', nodes, 'A', 'O', tags=['oneof', 'switch']),
                    [[R({'K': ['label:l1'], 'I1': ['raise:E1'], 'I2': ['raise:E2']})], [R({'K': ['label:l1'], 'I1': ['raise:E1']})]],
                    ['inner_exhausted', 'inner_fallback'])
    # two candidates, each with a private upstream node
    nodes = [N('A'), N('U1', I('p1', 'A')), N('K1', I('p1', 'U1')), N('U2', I('p1', 'A')), N('K2', I('p1', 'U2')),
             N('O', OO('p1', ['K1', 'K2']))]
    p = P('oneof_two', nodes, 'A', 'O', tags=['oneof'])
    out += variants(p, [
        [R({})],
        [R({'K1': ['raise:E1']})],
        [R({'U1': ['raise:E1']})],
        [R({'K1': ['raise:E1'], 'K2': ['raise:E2']})],
        [R({'U1': ['raise:E1'], 'U2': ['raise:E2']})],
        [R({'K1': ['falsy']})],
    ], ['first', 'k1fails', 'u1fails', 'allfail', 'allfail_up', 'falsy'])
    out += variants(P('oneof_none', nodes, 'A', 'O', tags=['oneof', 'D1']), [[R({'K1': ['none']})]], ['k1none'])
    # three candidates, failing candidate with depth-3 ancestor (D2)
    nodes = [N('A'), N('V1', I('p1', 'A')), N('V2', I('p1', 'V1')), N('V3', I('p1', 'V2')), N('K1', I('p1', 'V3')),
             N('K2', I('p1', 'A')), N('O', OO('p1', ['K1', 'K2']))]
    p = P('oneof_deep', nodes, 'A', 'O', tags=['oneof'])
    out += variants(p, [[R({})], [R({'K1': ['raise:E1']})], [R({'V3': ['raise:E1']})]], ['ok', 'k1', 'v3'])
    out += variants(P('oneof_deep_fail', nodes, 'A', 'O', tags=['oneof', 'D2']),
                    [[R({'V1': ['raise:E1']})], [R({'V2': ['raise:E1']})]], ['v1', 'v2'])
    # nested one-of: candidate K1 consumes its own one-of
    nodes = [N('A'), N('J1', I('p1', 'A')), N('J2', I('p1', 'A')), N('K1', OO('p1', ['J1', 'J2'])), N('K2', I('p1', 'A')),
             N('O', OO('p1', ['K1', 'K2']))]
    p = P('oneof_nested', nodes, 'A', 'O', tags=['oneof'])
    out += variants(p, [
        [R({})],
        [R({'J1': ['raise:E1']})],
        [R({'J1': ['raise:E1'], 'J2': ['raise:E1']})],
        [R({'J1': ['raise:E1'], 'J2': ['raise:E1'], 'K2': ['raise:E2']})],
        [R({'K1': ['raise:E1']})],
    ], ['ok', 'j1', 'j1j2', 'all', 'k1'])
    # sibling one-ofs in one consumer
    nodes = [N('A'), N('K1', I('p1', 'A')), N('K2', I('p1', 'A')), N('L1', I('p1', 'A')), N('L2', I('p1', 'A')),
             N('O', OO('p1', ['K1', 'K2']), OO('p2', ['L1', 'L2']))]
    p = P('oneof_siblings', nodes, 'A', 'O', tags=['oneof'])
    out += variants(p, [
        [R({})],
        [R({'K1': ['raise:E1']})],
        [R({'K1': ['raise:E1'], 'L1': ['raise:E2']})],
        [R({'K1': ['raise:E1'], 'K2': ['raise:E1']})],
    ], ['ok', 'k1', 'k1l1', 'kfail'])
    # chained: consumer of a one-of is itself a candidate of another
    nodes = [N('A'), N('K1', I('p1', 'A')), N('K2', I('p1', 'A')), N('M', OO('p1', ['K1', 'K2'])),
             N('L2', I('p1', 'A')), N('O', OO('p1', ['M', 'L2']))]
    p = P('oneof_chained', nodes, 'A', 'O', tags=['oneof'])
    out += variants(p, [[R({})], [R({'K1': ['raise:E1']})], [R({'K1': ['raise:E1'], 'K2': ['raise:E1']})],
                        [R({'M': ['raise:E1']})]], ['ok', 'k1', 'k1k2', 'm'])
    # candidates sharing an upstream node with the main pipeline
    nodes = [N('A'), N('SH', I('p1', 'A')), N('K1', I('p1', 'SH')), N('K2', I('p1', 'A')),
             N('O', OO('p1', ['K1', 'K2']), I('p2', 'SH'))]
    p = P('oneof_shared_up', nodes, 'A', 'O', tags=['oneof', 'shared'])
    out += variants(p, [[R({})], [R({'K1': ['raise:E1']})]], ['ok', 'k1'])
    # a node required by the main pipeline AND by a candidate fails: the failure is not contained
    nodes = [N('A'), N('X', I('p1', 'A')), N('K1', I('p1', 'X')), N('K2', I('p1', 'A')), N('M', OO('p1', ['K1', 'K2'])),
             N('Y', I('p1', 'X')), N('O', I('p1', 'M'), I('p2', 'Y'))]
    p = P('oneof_shared_required', nodes, 'A', 'O', tags=['oneof', 'shared'])
    out += variants(p, [[R({'X': ['raise:E1']})], [R({})], [R({'K1': ['raise:E2']})]], ['xfails', 'ok', 'k1fails'])
    # one-of behind a plain node (the one-of consumer is not the output)
    nodes = [N('A'), N('K1', I('p1', 'A')), N('K2', I('p1', 'A')), N('M', OO('p1', ['K1', 'K2'])), N('Z', I('p1', 'A')),
             N('O', I('p1', 'M'), I('p2', 'Z'))]
    p = P('oneof_inner', nodes, 'A', 'O', tags=['oneof'])
    out += variants(p, [[R({})], [R({'K1': ['raise:E1']})], [R({'K1': ['raise:E1'], 'K2': ['raise:E2']})],
                        [R({'K1': ['raise:E1'], 'Z': ['raise:E3']})]], ['ok', 'k1', 'all', 'k1_z'])
    # D5: the failing branch cancels a still-pending sibling task of the candidate's sub-pipeline
    nodes = [N('A'), N('U1', I('p1', 'A')), N('Z', I('p1', 'A')), N('Y', I('p1', 'U1')), N('K1', I('p1', 'Y'), I('p2', 'Z')),
             N('K2', I('p1', 'A')), N('O', OO('p1', ['K1', 'K2']))]
    p = P('oneof_cancel_sibling', nodes, 'A', 'O', tags=['oneof', 'D5'])
    out += variants(p, [[R({'U1': ['raise:E1']})], [R({})], [R({'U1': ['raise:E1'], 'K2': ['raise:E2']})]],
                    ['u1fails', 'ok', 'allfail'])
    # a switch inside a candidate's sub-pipeline: the nodes run for the switch are not members of the candidate's
    # reduced dag, their failures must still fail the candidate (and only the candidate)
    nodes = [N('A'), N('S', I('p1', 'A')), N('X', I('p1', 'A')), N('C1', I('p1', 'X')), N('C2', I('p1', 'A')),
             N('W', SW('p1', 'S', [('l1', 'C1'), ('l2', 'C2')], name='sw')), N('K1', I('p1', 'W')), N('K2', I('p1', 'A')),
             N('O', OO('p1', ['K1', 'K2']))]
    p = P('oneof_switch_inside', nodes, 'A', 'O', tags=['oneof', 'switch'])
    out += variants(p, [[R({'S': ['label:l1'], 'X': ['raise:E1']})], [R({'S': ['label:l1'], 'C1': ['raise:E1']})],
                        [R({'S': ['label:l1']})], [R({'S': ['label:zz']})], [R({'S': ['label:l2'], 'X': ['raise:E1']})]],
                    ['xfails', 'c1fails', 'ok', 'unknown', 'l2_xfails'])
    # the consumer of a one-of is (an input of) a switch case: the switch sub-pipeline is built after the first
    # candidate was started; it must not run the started candidate itself (random generator, seed 16 / 137)
    nodes = [N('A'), N('U1', I('p1', 'A')), N('K1', I('p1', 'U1')), N('K2', I('p1', 'A')),
             N('M', OO('p1', ['K1', 'K2']), I('p9', 'A')), N('S', I('p1', 'A')), N('C2', I('p1', 'M')),
             N('W', SW('p1', 'S', [('l1', 'M'), ('l2', 'C2')], name='sw')), N('O', I('p1', 'M'), I('p2', 'W'))]
    p = P('oneof_consumer_in_switch', nodes, 'A', 'O', tags=['oneof', 'switch', 'shared'])
    out += variants(p, [[R({'U1': ['raise:E1'], 'S': ['label:l2']})], [R({'U1': ['raise:E1'], 'S': ['label:l1']})],
                        [R({'K1': ['raise:E1'], 'S': ['label:l2']})], [R({'S': ['label:l2']})]],
                    ['u1fails_l2', 'u1fails_l1', 'k1fails_l2', 'ok_l2'])
    # a candidate of a second one-of depends on the consumer of a first one-of that had a losing candidate: the loser's
    # stored failure must not make the second one-of's candidates fail (random generator, seed 2 / 6)
    nodes = [N('A'), N('K1', I('p1', 'A')), N('K2', I('p1', 'A')), N('M', OO('p1', ['K1', 'K2'])), N('W', I('p1', 'A'), I('p2', 'M')),
             N('L1', I('p1', 'W')), N('L2', I('p1', 'W')), N('Q', OO('p1', ['L1', 'L2'])), N('O', I('p1', 'M'), I('p2', 'W'), I('p3', 'Q'))]
    p = P('oneof_after_oneof', nodes, 'A', 'O', tags=['oneof'])
    out += variants(p, [[R({'K1': ['raise:E3'], 'L1': ['raise:E3']})], [R({'K1': ['raise:E3']})], [R({'L1': ['raise:E1']})],
                        [R({'K1': ['raise:E3'], 'L1': ['raise:E3'], 'L2': ['raise:E2']})]],
                    ['k1_l1', 'k1', 'l1', 'k1_l1_l2'])
    # two candidates share a private ancestor Y; the first candidate's other ancestor F fails while Y is still running
    nodes = [N('A'), N('F', I('p1', 'A')), N('Y', I('p1', 'A')), N('K1', I('p1', 'F'), I('p2', 'Y')), N('K2', I('p1', 'Y')),
             N('O', OO('p1', ['K1', 'K2']))]
    p = P('oneof_shared_private_ancestor', nodes, 'A', 'O', tags=['oneof', 'shared'])
    out += variants(p, [[R({'F': ['raise:E1']})], [R({})], [R({'Y': ['raise:E1']})]], ['ffails', 'ok', 'yfails'])
    # retry inside a candidate
    nodes = [N('A'), N('K1', I('p1', 'A'), attempts=2), N('K2', I('p1', 'A')), N('O', OO('p1', ['K1', 'K2']))]
    p = P('oneof_retry', nodes, 'A', 'O', tags=['oneof', 'retry'])
    out += variants(p, [[R({'K1': ['raise:E1', 'ok']})], [R({'K1': ['raise:E1', 'raise:E1']})]], ['ok2', 'fail2'])
    return out


def rec_programs():
    out = []
    # simple: A -> S(start) -> M -> D(dest); O consumes rec(D)
    nodes = [N('A'), N('S', I('p1', 'A')), N('M', I('p1', 'S')), N('D', I('p1', 'M')), N('Z', I('p1', 'A')),
             N('O', RC('p1', 'S', 'D', 2), I('p2', 'Z'))]
    p = P('rec_simple', nodes, 'A', 'O', tags=['rec'])
    out += variants(p, [
        [R(recreq={'D': 0})], [R(recreq={'D': 1})], [R(recreq={'D': 2})], [R(recreq={'D': 3})],
        [R({'M': ['raise:E1']}, recreq={'D': 1})],
    ], ['it0', 'it1', 'it2', 'it3_exhaust', 'mfails'])
    # the start node (and the others) declared through build_node with a constant dependency
    nodes_g = [N('A'), N('S', I('p1', 'A'), generic=True), N('M', I('p1', 'S'), generic=True, mode='thread'),
               N('D', I('p1', 'M'), generic=True), N('Z', I('p1', 'A')),
               N('O', RC('p1', 'S', 'D', 2), I('p2', 'Z'), generic=True)]
    out += variants(P('rec_generic', nodes_g, 'A', 'O', tags=['rec', 'generic']),
                    [[R(recreq={'D': 1})], [R(recreq={'D': 0})], [R(recreq={'D': 3})]], ['it1', 'it0', 'it3_exhaust'])
    nodes_d = [N('A'), N('S', I('p1', 'A')), N('M', I('p1', 'S')), N('D', I('p1', 'M'), use_default=True),
               N('Z', I('p1', 'A')), N('O', RC('p1', 'S', 'D', 2), I('p2', 'Z'))]
    p = P('rec_default', nodes_d, 'A', 'O', tags=['rec'])
    out += variants(p, [[R(recreq={'D': 1})], [R(recreq={'D': 3})], [R(recreq={'D': 9})]], ['it1', 'it3_default', 'it9'])
    # input node is the start (as in the repository's tests)
    nodes = [N('A'), N('M', I('p1', 'A')), N('D', I('p1', 'M')), N('O', RC('p1', 'A', 'D', 3))]
    p = P('rec_from_input', nodes, 'A', 'O', tags=['rec'])
    out += variants(p, [[R(recreq={'D': 1})], [R(recreq={'D': 3})], [R(recreq={'D': 4})]], ['it1', 'it3', 'it4_exhaust'])
    # the sub-graph is needed by the main path (Y) AND by a one-of candidate (C1); an inner node fails in the re-iteration.
    # Bodies that do not suspend (inline) let the one-of own the re-iteration.
    for tag, md in (('inl', 'inline'), ('coro', 'coro')):
        nodes_t = [N('A', mode=md), N('S', I('p1', 'A'), mode=md), N('M', I('p1', 'S'), mode=md), N('D', I('p1', 'M'), mode=md),
                   N('Y', RC('p1', 'S', 'D', 3), mode=md), N('C1', RC('p1', 'S', 'D', 3), mode=md), N('C2', I('p1', 'A'), mode=md),
                   N('O', OO('p1', ['C1', 'C2']), I('p2', 'Y'), mode=md)]
        out += variants(P('rec_two_scopes_fail_in_reiteration_' + tag, nodes_t, 'A', 'O', tags=['rec', 'oneof']),
                        [[R(recreq={'D': 1}, plan_it={'M': [['ok'], ['raise:E1']]})], [R(recreq={'D': 1})]], ['m_it1', 'ok'])
    # the destination is requested from two scopes (directly, and by the selected case of a switch) and runs out of
    # iterations: exactly max_iterations re-iterations, then the default - also when the bodies do not suspend
    for tag, md in (('inl', 'inline'), ('coro', 'coro')):
        nodes_b = [N('A', mode=md), N('S', I('p1', 'A'), mode=md), N('D', I('p1', 'S'), use_default=True, mode=md), N('DEC', I('p1', 'A')),
                   N('C', RC('p1', 'S', 'D', 1), mode=md), N('O', SW('p1', 'DEC', [('x', 'C')], name='bud'), RC('p2', 'S', 'D', 1), mode=md)]
        out += variants(P('rec_budget_two_scopes_' + tag, nodes_b, 'A', 'O', tags=['rec', 'switch']),
                        [[R({'DEC': ['label:x']}, recreq={'D': 5})], [R({'DEC': ['label:x']}, recreq={'D': 1})]], ['exhaust', 'it1'])
    # a single-node sub-graph: the polling node is its own start and destination
    nodes1 = [N('A'), N('D', I('p1', 'A')), N('O', RC('p1', 'D', 'D', 3))]
    out += variants(P('rec_single_node', nodes1, 'A', 'O', tags=['rec']),
                    [[R(recreq={'D': 2})], [R(recreq={'D': 0})], [R(recreq={'D': 4})]], ['it2', 'it0', 'it4_exhaust'])
    nodes1d = [N('A'), N('D', I('p1', 'A'), use_default=True), N('O', RC('p1', 'D', 'D', 2))]
    out += variants(P('rec_single_node_default', nodes1d, 'A', 'O', tags=['rec']), [[R(recreq={'D': 5})]], ['exhaust'])
    # nested sub-graphs that share a node (N) with an input (P) that belongs to the outer one only
    nodes2 = [N('A'), N('S1', I('p1', 'A')), N('PP', I('p1', 'S1')), N('S2', I('p1', 'S1')), N('NN', I('p1', 'S2'), I('p2', 'PP')),
              N('D2', I('p1', 'NN')), N('M', RC('p1', 'S2', 'D2', 2)), N('D1', I('p1', 'M')), N('O', RC('p1', 'S1', 'D1', 3))]
    out += variants(P('rec_nested_shared', nodes2, 'A', 'O', tags=['rec']),
                    [[R(recreq={'D2': 1, 'D1': 2})], [R(recreq={'D2': 1, 'D1': 1})]], ['in1_out2', 'in1_out1'])
    # next_iteration(token) then next_iteration(None) when the start node is the pipeline's input node
    p = P('rec_from_input_none', nodes, 'A', 'O', tags=['rec'])
    out += variants(p, [[R(recreq={'D': 2}, recnone={'D': [2]})]], ['token_then_none'])
    # nested sub-graphs inside a one-of candidate: the inner one (no default) runs out of iterations only during the
    # second iteration of the outer one -> the candidate fails, the fallback is used
    nodes_n = [N('A'), N('OA', I('p1', 'A')), N('IB', I('p1', 'OA')), N('DIN', I('p1', 'IB')), N('X', RC('p1', 'IB', 'DIN', 2)),
               N('DOUT', I('p1', 'X')), N('PX', RC('p1', 'OA', 'DOUT', 3)), N('FB', I('p1', 'A')), N('O', OO('p1', ['PX', 'FB']))]
    out += variants(P('rec_nested_in_oneof_exhaust', nodes_n, 'A', 'O', tags=['rec', 'oneof']),
                    [[R(recreq={'DOUT': 1, 'DIN': 9}, plan_it={'DIN': [['none'], ['ok']]})],
                     [R(recreq={'DOUT': 1, 'DIN': 9})]], ['second_outer', 'first_pass'])
    # a node of the loop (B) is also read by the sub-pipeline of a switch outside the loop (no reference value: D8
    # family), two parallel branches in the loop
    nodes_s = [N('A'), N('S', I('p1', 'A')), N('Q', I('p1', 'S')), N('QA', I('p1', 'Q')), N('X1', I('p1', 'S')), N('X2', I('p1', 'X1')),
               N('B', I('p1', 'X2')), N('D', I('p1', 'QA'), I('p2', 'B')), N('DEC', I('p1', 'B')), N('CY', I('p1', 'B')),
               N('O', RC('p1', 'S', 'D', 3), SW('p2', 'DEC', [('y', 'CY')], name='swo'))]
    out += variants(P('rec_shared_with_switch_outside', nodes_s, 'A', 'O', tags=['rec', 'switch', 'D8']),
                    [[R({'DEC': ['label:y']}, recreq={'D': 1})]], ['it1'])
    # retry + default inside a recurrent sub-graph (test_subgraph_default_retry)
    nodes = [N('A', attempts=2, use_default=True), N('M', I('p1', 'A')), N('D', I('p1', 'M'), use_default=True),
             N('C'), N('O', I('p1', 'C'), RC('p2', 'A', 'D', 2))]
    p = P('rec_default_retry', nodes, 'A', 'O', tags=['rec', 'retry'])
    out += variants(p, [[R({'A': ['raise:E1']}, recreq={'D': 9})], [R({'A': ['raise:E1', 'ok']}, recreq={'D': 1})]],
                    ['alldefault', 'retry_ok'])
    # nested recurrent sub-graphs
    nodes = [N('A'), N('S', I('p1', 'A')), N('S2', I('p1', 'S')), N('D2', I('p1', 'S2')),
             N('D', RC('p1', 'S2', 'D2', 2)), N('O', RC('p1', 'S', 'D', 2))]
    p = P('rec_nested', nodes, 'A', 'O', tags=['rec'])
    out += variants(p, [[R(recreq={'D': 1, 'D2': 1})], [R(recreq={'D': 0, 'D2': 2})], [R(recreq={'D': 2, 'D2': 0})]],
                    ['1_1', '0_2', '2_0'])
    # destinations that ask for iterations by invocation count (like the repository's tests do with counters):
    # the inner sub-graph finishes, the outer one iterates, the inner destination asks again
    nodes = [N('A'), N('S', I('p1', 'A')), N('S2', I('p1', 'S')), N('D2', I('p1', 'S2')),
             N('D', RC('p1', 'S2', 'D2', 2)), N('O', RC('p1', 'S', 'D', 2))]
    q = P('rec_nested_counted', nodes, 'A', 'O', tags=['rec', 'counted'])
    q['runs'] = [dict(input={'x': 'tokA'}, plan={}, recreq={}, recfalsy=[], recseq={'D2': 'RNRN', 'D': 'RN'})]
    q['name'] = 'rec_nested_counted#rnrn'
    out.append(q)
    # switch inside the sub-graph (test_subgraph_with_inside_switch)
    nodes = [N('A'), N('S', I('p1', 'A')), N('SWN', I('p1', 'S')), N('C1', I('p1', 'S')), N('C2', I('p1', 'S')),
             N('D', SW('p1', 'SWN', [('l1', 'C1'), ('l2', 'C2')], name='swin')), N('O', RC('p1', 'S', 'D', 2))]
    p = P('rec_switch_inside', nodes, 'A', 'O', tags=['rec', 'switch'])
    out += variants(p, [[R({'SWN': ['label:l1']}, recreq={'D': 1})], [R({'SWN': ['label:l2']}, recreq={'D': 2})]],
                    ['l1_it1', 'l2_it2'])
    # the label changes between iterations: the consumer must get the case selected in THIS iteration
    out += variants(P('rec_switch_label_changes', nodes, 'A', 'O', tags=['rec', 'switch', 'D9']),
                    [[R(recreq={'D': 1}, plan_it={'SWN': [['label:l1'], ['label:l2']]})]], ['l1_then_l2'])
    out += variants(P('rec_switch_inside_fail', nodes, 'A', 'O', tags=['rec', 'switch', 'D9']),
                    [[R({'SWN': ['label:l1'], 'C2': ['raise:E1']}, recreq={'D': 1})]], ['l1_c2fails'])
    # recurrent destination inside a one-of candidate (test_oneof_with_recurrent_subgraph)
    nodes = [N('A'), N('S', I('p1', 'A')), N('D', I('p1', 'S')), N('K1', RC('p1', 'S', 'D', 2)), N('K2', I('p1', 'A')),
             N('O', OO('p1', ['K1', 'K2']))]
    p = P('rec_in_oneof', nodes, 'A', 'O', tags=['rec', 'oneof'])
    out += variants(p, [[R(recreq={'D': 1})], [R(recreq={'D': 3})], [R({'S': ['raise:E1']}, recreq={'D': 1})]],
                    ['it1', 'exhaust_fallback', 'sfails'])
    # destination reachable from two scopes: its consumer is also needed by one-of candidates, so the one-of
    # sub-pipeline issues a duplicate request for the destination while the main pipeline iterates it
    nodes = [N('A'), N('S', I('p1', 'A')), N('D', I('p1', 'S')), N('U', RC('p1', 'S', 'D', 2), I('p9', 'A')),
             N('K1', I('p1', 'U')), N('K2', I('p1', 'A'), I('p2', 'U')), N('M', OO('p1', ['K1', 'K2']), I('p9', 'U')),
             N('O', I('p1', 'U'), I('p2', 'M'))]
    out += variants(P('rec_dest_two_scopes', nodes, 'A', 'O', tags=['rec', 'oneof', 'shared']),
                    [[R(recreq={'D': 2})], [R(recreq={'D': 1})], [R({'K1': ['raise:E1']}, recreq={'D': 1})]],
                    ['it2', 'it1', 'it1_k1fails'])
    # a recurrent destination required by the main pipeline and by a one-of candidate fails: executed first in
    # the one-of scope its exception is kept as a value; the main pipeline must still fail (shape found by the
    # random generator, seed 1 / 49)
    nodes = [N('A'), N('N1', I('p1', 'A')), N('S', I('p1', 'N1')), N('D', I('p1', 'S')), N('U', RC('p1', 'S', 'D', 2)),
             N('K1', I('p1', 'U')), N('K2', I('p1', 'N1')), N('M', OO('p1', ['K1', 'K2']), I('p9', 'A')),
             N('O', I('p1', 'N1'), I('p2', 'U'), I('p3', 'M'))]
    out += variants(P('rec_dest_fails_two_scopes', nodes, 'A', 'O', tags=['rec', 'oneof', 'shared']),
                    [[R({'D': ['raise:E3']}, recreq={'D': 3})], [R({'S': ['raise:E1']}, recreq={'D': 1})]],
                    ['dfails', 'sfails'])
    # an inner node of the sub-graph has a side input that is neither upstream nor downstream of the start node;
    # the sub-graph does not start at the input node
    nodes = [N('A'), N('UP', I('p1', 'A')), N('S', I('p1', 'UP')), N('SIDE', I('p1', 'A')), N('M', I('p1', 'S'), I('p2', 'SIDE')),
             N('D', I('p1', 'M')), N('O', RC('p1', 'S', 'D', 3), I('p2', 'UP'), I('p3', 'SIDE'))]
    out += variants(P('rec_side_input', nodes, 'A', 'O', tags=['rec']),
                    [[R(recreq={'D': 2})], [R(recreq={'D': 0})]], ['it2', 'it0'])
    # next_iteration(token) in one iteration, next_iteration(None) in the following one: the start node then runs
    # WITHOUT additional_data (and so with the arguments of its very first execution: invoked twice with them)
    nodes = [N('A'), N('S', I('p1', 'A')), N('D', I('p1', 'S'), use_default=True), N('O', RC('p1', 'S', 'D', 2))]
    out += variants(P('rec_none_payload', nodes, 'A', 'O', tags=['rec']),
                    [[R(recreq={'D': 2}, recnone={'D': [2]})]], ['token_then_none'])
    # the payload of next_iteration is falsy (0): it is still a payload
    nodes = [N('A'), N('S', I('p1', 'A')), N('D', I('p1', 'S')), N('O', RC('p1', 'S', 'D', 1))]
    out += variants(P('rec_falsy_payload', nodes, 'A', 'O', tags=['rec']),
                    [[R(recreq={'D': 1}, recfalsy=['D'])]], ['falsy'])
    nodes = [N('A'), N('S', I('p1', 'A')), N('D', I('p1', 'S'), use_default=True), N('O', RC('p1', 'S', 'D', 1))]
    out += variants(P('rec_falsy_payload_default', nodes, 'A', 'O', tags=['rec']),
                    [[R(recreq={'D': 1}, recfalsy=['D'])]], ['falsy'])
    # a one-of inside a recurrent sub-graph: the sub-graph is built from the unfiltered graph, so on re-iteration both
    # candidates are ordinary members (finding D9, same mechanism as the switch inside a recurrent sub-graph)
    nodes = [N('A'), N('S', I('p1', 'A')), N('K1', I('p1', 'S')), N('K2', I('p1', 'S')), N('M', OO('p1', ['K1', 'K2'])),
             N('D', I('p1', 'M')), N('O', RC('p1', 'S', 'D', 2))]
    out += variants(P('oneof_inside_rec', nodes, 'A', 'O', tags=['rec', 'oneof', 'D9']),
                    [[R({'K1': ['raise:E1']}, recreq={'D': 1})], [R({}, recreq={'D': 1})], [R({'K1': ['raise:E1']}, recreq={'D': 0})]],
                    ['k1fails_it1', 'ok_it1', 'k1fails_it0'])
    # ... the whole thing inside a candidate of an OUTER one-of; the inner first candidate fails in the first iteration
    # only (its failure, kept as a value, is hidden by the re-iteration and must not count as an error any more)
    nodes = [N('A'), N('S', I('p1', 'A')), N('K1', I('p1', 'S')), N('K2', I('p1', 'S')), N('D', OO('p1', ['K1', 'K2'])),
             N('RF', RC('p1', 'S', 'D', 3)), N('RG', I('p1', 'A')), N('O', OO('p1', ['RF', 'RG']))]
    out += variants(P('oneof_inside_rec_in_candidate', nodes, 'A', 'O', tags=['rec', 'oneof', 'D9']),
                    [[R(recreq={'D': 1}, plan_it={'K1': [['raise:E1'], ['ok']]})]], ['k1_it0'])
    # ... and a started node (S) of the candidate that failed in the first iteration is still in flight when the
    # sub-graph re-iterates: its execution belongs to the previous iteration (fix: outdated executions are stopped)
    nodes = [N('A'), N('B0', I('p1', 'A')), N('F', I('p1', 'B0')), N('S', I('p1', 'B0')), N('P1', I('p1', 'F'), I('p2', 'S')),
             N('FB', I('p1', 'B0')), N('D', OO('p1', ['P1', 'FB'])), N('O', RC('p1', 'B0', 'D', 2))]
    out += variants(P('oneof_inside_rec_straggler', nodes, 'A', 'O', tags=['rec', 'oneof', 'D9']),
                    [[R(recreq={'D': 1}, plan_it={'F': [['raise:E1'], ['ok']]})]], ['f_it1'])
    # recurrent sub-graph inside a candidate; an inner node fails only in the second iteration (epoch-dependent plan)
    nodes = [N('A'), N('S', I('p1', 'A')), N('M', I('p1', 'S')), N('D', I('p1', 'M')), N('K1', RC('p1', 'S', 'D', 2)), N('K2', I('p1', 'A')),
             N('O', OO('p1', ['K1', 'K2']))]
    out += variants(P('rec_in_oneof_late_failure', nodes, 'A', 'O', tags=['rec', 'oneof']),
                    [[R(recreq={'D': 1}, plan_it={'M': [['ok'], ['raise:E1']]})], [R(recreq={'D': 1}, plan_it={'S': [['ok'], ['raise:E1']]})],
                     [R(recreq={'D': 2}, plan_it={'D': [['ok'], ['ok'], ['raise:E2']]})]], ['m_it2', 's_it2', 'd_it3'])
    # a retrying node outside the sub-graph reads a node inside it: every attempt must get the same arguments
    nodes = [N('A'), N('S', I('p1', 'A')), N('Pn', I('p1', 'S')), N('D', I('p1', 'Pn')), N('X', I('p1', 'Pn'), attempts=2, delay=0.2),
             N('O', RC('p1', 'S', 'D', 2), I('p2', 'X'))]
    out += variants(P('retry_reads_rec_inside', nodes, 'A', 'O', tags=['rec', 'retry', 'D8']),
                    [[R({'X': ['raise:E1', 'ok']}, recreq={'D': 1})]], ['x_retries'])
    # D8: outside reader of an inside node, deeper than the destination
    nodes = [N('A'), N('S', I('p1', 'A')), N('M', I('p1', 'S')), N('D', I('p1', 'M')),
             N('Q1', I('p1', 'A')), N('Q2', I('p1', 'Q1')), N('Q3', I('p1', 'Q2')), N('Q4', I('p1', 'Q3')),
             N('Y', I('p1', 'M'), I('p2', 'Q4')), N('O', RC('p1', 'S', 'D', 2), I('p2', 'Y'))]
    out += variants(P('rec_outside_reader', nodes, 'A', 'O', tags=['rec', 'D8']), [[R(recreq={'D': 1})]], ['it1'])
    # several consumers of one recurrent destination
    nodes = [N('A'), N('S', I('p1', 'A')), N('D', I('p1', 'S')), N('U', RC('p1', 'S', 'D', 2)), N('V', RC('p1', 'S', 'D', 2)),
             N('O', I('p1', 'U'), I('p2', 'V'))]
    out += variants(P('rec_two_consumers', nodes, 'A', 'O', tags=['rec']),
                    [[R(recreq={'D': 1})], [R(recreq={'D': 2})]], ['it1', 'it2'])
    return out


def all_programs():
    progs = []
    for f in (plain_programs, failure_programs, retry_programs, switch_programs, oneof_programs, rec_programs):
        progs += f()
    names = set()
    for p in progs:
        assert p['name'] not in names, p['name']
        names.add(p['name'])
    return progs
