"""Histories of the REAL pool registries (ml_pipeline_engine/parallelism) and of DAG.run's fail-fast check, for
spec/Pools.tla + spec/PoolsTrace.tla (property C17, second half).

Run as a script in a FRESH interpreter per history (the registries are process-wide singletons that keep the first
object they are given):   python -m harness.pools <jobs.json> <out.json>
jobs = [{'id', 'ops': [{'op', 'o', 'needT', 'needP'}]}]       out = [{'id', 'ops': [... + 'reply']}]
"""
import json
import os
import random
import sys

ROOT = os.path.dirname(os.path.dirname(os.path.abspath(__file__)))
REPO = os.environ.get('VERIF_REPO', '/repo')
for p in (REPO, ROOT):
    if p not in sys.path:
        sys.path.insert(0, p)

TP, PP, MG = ['t1', 't2', 't3'], ['p1', 'p2', 'p3'], ['m1', 'm2', 'm3']


def gen_history(rnd, nops):
    """random calls; a run that needs the process pool is the last call of a history (its workers are forked then)"""
    ops = []
    for i in range(nops):
        r = rnd.random()
        if r < 0.30:
            kind = rnd.choice(['regT', 'regT', 'regP', 'regM'])
            ops.append({'op': kind, 'o': rnd.choice({'regT': TP, 'regP': PP, 'regM': MG}[kind][:2])})
        elif r < 0.42:
            ops.append({'op': 'shut', 'o': rnd.choice(TP[:2] + PP[:2] + MG[:2])})
        elif r < 0.50:
            ops.append({'op': rnd.choice(['shutT', 'shutP']), 'o': '-'})
        elif r < 0.72:
            ops.append({'op': rnd.choice(['readyT', 'readyP', 'getT', 'getP', 'getM']), 'o': '-'})
        else:
            ops.append({'op': 'run', 'o': '-', 'needT': rnd.random() < 0.6, 'needP': False})
    last = rnd.random()
    if last < 0.6:
        ops.append({'op': 'run', 'o': '-', 'needT': rnd.random() < 0.5, 'needP': True})
    for o in ops:
        o.setdefault('needT', False)
        o.setdefault('needP', False)
    return ops


def pipeline(need_t, need_p):
    from harness import corpus as C
    mid = 'thread' if need_t else 'coro'
    last = 'process' if need_p else 'coro'
    return C.P('need_%s%s' % ('T' if need_t else '-', 'P' if need_p else '-'),
               [C.N('A', mode='coro'), C.N('B', C.I('p1', 'A'), mode=mid), C.N('K', C.I('p1', 'B'), mode='coro'),
                C.N('O', C.I('p1', 'K'), mode=last)], 'A', 'O')


def execute(ops):
    from concurrent.futures import ProcessPoolExecutor
    from concurrent.futures import ThreadPoolExecutor
    from harness import programs
    from harness import realloop
    from ml_pipeline_engine.parallelism import process_pool_registry
    from ml_pipeline_engine.parallelism import threads_pool_registry
    objs = {}
    charts = {}      # one chart object per pipeline kind for the whole history: later runs re-use it

    def get(o):
        if o not in objs:
            if o in TP:
                objs[o] = ThreadPoolExecutor(2)
            elif o in PP:
                objs[o] = ProcessPoolExecutor(1, mp_context=realloop.CTX)
            else:
                objs[o] = realloop.CTX.Manager()
        return objs[o]

    def name_of(x):
        for k, v in objs.items():
            if v is x:
                return ['obj', k]
        return ['other', type(x).__name__]
    out = []
    for o in ops:
        o = dict(o)
        try:
            op = o['op']
            if op == 'regT':
                threads_pool_registry.register_pool_executor(get(o['o']))
                o['reply'] = ['ok']
            elif op == 'regP':
                process_pool_registry.register_pool_executor(get(o['o']))
                o['reply'] = ['ok']
            elif op == 'regM':
                process_pool_registry.register_manager(get(o['o']))
                o['reply'] = ['ok']
            elif op == 'shut':
                get(o['o']).shutdown()
                o['reply'] = ['ok']
            elif op == 'shutT':
                threads_pool_registry.shutdown()
                o['reply'] = ['ok']
            elif op == 'shutP':
                process_pool_registry.shutdown()
                o['reply'] = ['ok']
            elif op == 'readyT':
                threads_pool_registry.is_ready()
                o['reply'] = ['ok']
            elif op == 'readyP':
                process_pool_registry.is_ready()
                o['reply'] = ['ok']
            elif op == 'getT':
                o['reply'] = name_of(threads_pool_registry.get_pool_executor())
            elif op == 'getP':
                o['reply'] = name_of(process_pool_registry.get_pool_executor())
            elif op == 'getM':
                o['reply'] = name_of(process_pool_registry.get_manager())
            elif op == 'run':
                prog = programs.normalise(pipeline(o['needT'], o['needP']))
                lines = realloop.run_job({'prog': prog, 'seed': 1}, False, cache=charts)
                starts = sum(1 for x in lines if x['e'] == 'BodyStart')
                ret = [x for x in lines if x['e'] == 'RunReturn']
                if not ret:
                    o['reply'] = ['other', 'no return (hang)']
                elif ret[0]['kind'] == 'value':
                    o['reply'] = ['ran']
                elif ret[0]['kind'] == 'error' and starts == 0:
                    o['reply'] = ['failfast']
                elif ret[0]['kind'] == 'error':
                    o['reply'] = ['partial']
                else:
                    o['reply'] = ['other', str(ret[0]['kind'])]
        except RuntimeError as ex:
            o['reply'] = ['raises', type(ex).__name__]
        except Exception as ex:  # noqa: BLE001
            o['reply'] = ['other', type(ex).__name__]
        out.append(o)
    return out


def main(argv):
    with open(argv[0]) as f:
        jobs = json.load(f)
    out = []
    for job in jobs:
        try:
            out.append({'id': job['id'], 'ops': execute(job['ops'])})
        except Exception:  # noqa: BLE001
            import traceback
            out.append({'id': job['id'], 'error': traceback.format_exc()[-1500:]})
    with open(argv[1], 'w') as f:
        json.dump(out, f)
    sys.stdout.flush()
    import signal
    try:
        if os.getpgid(0) == os.getpid():
            os.killpg(0, signal.SIGKILL)
    finally:
        os._exit(0)


def directed():
    def op(name, o='-', t=False, p=False):
        return {'op': name, 'o': o, 'needT': t, 'needP': p}
    hs = {
        'all_ready': [op('regT', 't1'), op('regP', 'p1'), op('regM', 'm1'), op('readyT'), op('readyP'), op('getM'),
                      op('run', t=True), op('run', t=True, p=True)],
        'proc_shut_directly': [op('regP', 'p1'), op('regM', 'm1'), op('shut', 'p1'), op('readyP'), op('run', p=True)],
        'no_manager': [op('regT', 't1'), op('regP', 'p1'), op('getP'), op('run', t=True, p=True)],
        'first_wins': [op('regT', 't1'), op('shut', 't1'), op('regT', 't2'), op('getT'), op('run', t=True)],
        'first_wins_live': [op('regT', 't1'), op('regT', 't2'), op('shut', 't2'), op('getT'), op('run', t=True)],
        'manager_down': [op('regP', 'p1'), op('regM', 'm1'), op('shut', 'm1'), op('readyP'), op('run', p=True)],
        'registry_shutdown': [op('regT', 't1'), op('regP', 'p1'), op('regM', 'm1'), op('shutP'), op('readyP'), op('readyT'),
                              op('run', t=True), op('shutT'), op('run', t=True), op('run')],
        'late_registration': [op('run', t=True), op('regT', 't1'), op('run', t=True), op('run', p=True), op('regM', 'm2'),
                              op('regP', 'p2'), op('run', t=True, p=True)],
        'nothing': [op('readyT'), op('readyP'), op('getT'), op('getP'), op('getM'), op('run'), op('run', t=True), op('run', p=True)],
    }
    return [{'id': 'dir_' + k, 'ops': v} for k, v in hs.items()]


def histories(seed, count):
    rnd = random.Random('pools/%d' % seed)
    return directed() + [{'id': 'reg%d' % i, 'ops': gen_history(rnd, rnd.randint(3, 14))} for i in range(count)]


def run_histories(hs, parallel=16):
    """one fresh interpreter per history"""
    import concurrent.futures
    from harness import realloop
    with concurrent.futures.ThreadPoolExecutor(parallel) as pool:
        outs = list(pool.map(lambda h: realloop.run_in_subprocess([h], timeout=120, module='harness.pools')[0], hs))
    return outs


if __name__ == '__main__':
    main(sys.argv[1:])
