"""Per-property checks (DESIGN 6.4): ./check <ID> [--tier quick|thorough], ./check replay <file>.

Exit codes: 0 property held on everything explored (known findings are listed, not alarms);
1 with 'VIOLATION property=<id> replay=<path>'; 2 machinery failure.
"""
import concurrent.futures
import copy
import json
import os
import sys
import time
import traceback

ROOT = os.path.dirname(os.path.dirname(os.path.abspath(__file__)))
REPO = os.environ.get('VERIF_REPO', '/repo')
if REPO not in sys.path:
    sys.path.insert(0, REPO)
if ROOT not in sys.path:
    sys.path.insert(0, ROOT)

from harness import corpus  # noqa: E402
from harness import driver  # noqa: E402
from harness import programs  # noqa: E402
from harness import tlc  # noqa: E402
from harness.runtime import to_json  # noqa: E402

NWORKERS = int(os.environ.get('VERIF_WORKERS', '16'))

RUNTIME_PROPS = ['C01', 'C02', 'C03', 'C04', 'C05', 'C06', 'C07', 'C08', 'C09', 'C10', 'C11', 'C12', 'C13',
                 'C14', 'C19']


# ------------------------------------------------------------------------------------------------------
# executing one configuration on the real engine
# ------------------------------------------------------------------------------------------------------

def make_policy(pol):
    kind = pol[0]
    if kind == 'random':
        return driver.RandomPolicy(pol[1], p_step=pol[2])
    if kind == 'eager':
        return driver.EagerPolicy(pol[1])
    if kind == 'hold':
        return driver.HoldPolicy(pol[1], p_step=pol[2], prefix=pol[3])
    if kind == 'offset':
        return driver.OffsetPolicy(pol[1], pol[2], pol[3])
    if kind == 'script':
        return driver.ScriptPolicy(pol[1])
    raise ValueError(kind)


def snapshot(chart, inp):
    dag = chart.entrypoint
    g = dag.graph
    graph = json.dumps({
        'nodes': sorted((str(n), sorted((str(k), repr(v)) for k, v in d.items())) for n, d in g.nodes(data=True)),
        'edges': sorted((str(u), str(v), sorted((str(k), repr(x)) for k, x in d.items())) for u, v, d in g.edges(data=True)),
        'node_map': sorted((str(k), v.__name__) for k, v in dag.node_map.items()),
        'io': [dag.input_node, dag.output_node],
        'graph_attrs': sorted((str(k), repr(v)) for k, v in g.graph.items()),       # graph-level attributes (name, ...)
    }, sort_keys=True)
    classes = json.dumps(sorted(
        (str(k), sorted((a, repr(getattr(v, a, None))) for a in ('attempts', 'delay', 'exceptions', 'use_default', 'tags',
                                                                 'name', 'node_type')),
         sorted(x for x in vars(v) if not x.startswith('__')))
        for k, v in dag.node_map.items()), sort_keys=True)
    return {'graph': graph, 'classes': classes, 'input': json.dumps(sorted((str(k), repr(v)) for k, v in inp.items()))}


def execute(prog, cfg):
    """returns (lines, execution)"""
    if cfg.get('collab'):
        prog = dict(prog, collab=cfg['collab'])
    ex = driver.Execution(prog, overlap=cfg.get('overlap', False), cancel=cfg.get('cancel'),
                          snap=snapshot if cfg.get('snap') else None, max_actions=cfg.get('max_actions', 4000))
    lines = ex.run(make_policy(cfg['policy']))
    if cfg.get('fresh'):
        lines = fresh_lines(prog) + lines
    return lines, ex


def fresh_lines(prog):
    """outcome of every run of prog executed alone on a freshly built chart (oracle of C07.fresh / C08.solo)"""
    pre = []
    for r, spec in enumerate(prog['runs'], 1):
        solo = copy.deepcopy(prog)
        solo['runs'] = [spec]
        fx = driver.Execution(solo, max_actions=4000)
        fl = fx.run(driver.EagerPolicy(()))
        ret = [x for x in fl if x['e'] == 'RunReturn']
        if ret:
            pre.append({'e': 'Fresh', 'r': r, 'kind': ret[0]['kind'], 'v': ret[0]['v']})
    return pre


def work(chunk):
    """chunk: list of (name, prog, [cfg...]); runs executions and validates them with TLC.
    Returns dict with verdict summaries; keeps configs for violating traces and a few samples."""
    driver.install_fake_pools()
    ptla = []
    traces = []
    cfgs = {}
    nexec = 0
    errors = []
    minfo = []
    for pi, (name, prog, cfglist) in enumerate(chunk, 1):
        P = programs.to_tla(prog)
        ptla.append(P)
        for ci, cfg in enumerate(cfglist):
            try:
                if cfg['policy'][0] == 'trace':
                    # code -> spec, step-exact: executions recorded action by action are followed by EngineTrace.tla
                    from harness import replay
                    rec = []
                    for s in range(cfg['policy'][1]):
                        labs, projs, lines = replay.record_execution(prog, driver.RandomPolicy(cfg['policy'][2] + s, [0.5, 0.8, 0.95, 0.7][s % 4]))
                        rec.append((labs, projs))
                        tid = '%s|t%d.%d' % (name, ci, s)
                        cfgs[tid] = dict(policy=['random', cfg['policy'][2] + s, [0.5, 0.8, 0.95, 0.7][s % 4]])
                        traces.append(tlc.make_trace(tid, pi, lines, amb=P['amb']))
                        nexec += 1
                    res, _, err = replay.follow_scripts(prog, rec)
                    bad = [d for d in res if d]
                    minfo.append({'prog': name, 'states': 0, 'transitions': 0, 'replayed': 0, 'walks': 0, 'liveness': None,
                                  'drift': (dict(bad[0], kind='code->spec') if bad else None), 'invariants_violated': [],
                                  'scripts': len(rec), 'script_steps': sum(len(x[0]) for x in rec)})
                    if err:
                        errors.append('%s: EngineTrace TLC error: %s' % (name, err[-600:]))
                elif cfg['policy'][0] == 'model2':
                    # Engine2.tla: the runs of prog as a product of run managers on one loop; every transition replayed
                    from harness import replay
                    r = replay.replay_graph2(prog, overlap=cfg.get('overlap', False), max_paths=cfg['policy'][1], collect=True)
                    minfo.append({'prog': name, 'states': r['states'], 'transitions': r['transitions'], 'replayed': r['replayed'],
                                  'walks': r['paths'], 'drift': r['divergence'], 'invariants_violated': r['model_invariants_violated'],
                                  'liveness': None})
                    pre = fresh_lines(prog)
                    for k, tr in enumerate(r['traces']):
                        tid = '%s|m2.%d.%d' % (name, ci, k)
                        c2 = dict(cfg, fresh=True)
                        c2['policy'] = ['script', tr['schedule']]
                        cfgs[tid] = c2
                        traces.append(tlc.make_trace(tid, pi, pre + tr['lines'], amb=P['amb'], overlap=cfg.get('overlap', False)))
                        nexec += 1
                elif cfg['policy'][0] == 'model':
                    from harness import replay
                    r = replay.replay_graph(prog, max_paths=cfg['policy'][1], collect=True, cancel=len(cfg['policy']) > 2,
                                            collab=cfg.get('mcollab'))
                    if cfg.get('liveness'):
                        from harness import model as _model
                        lv = _model.check_liveness(_model.export_instance(prog))
                        r['liveness'] = {'ok': lv['ok'], 'states': lv.get('distinct', 0)}
                        if not lv['ok']:
                            r['model_invariants_violated'] = r['model_invariants_violated'] + ['Termination']
                    minfo.append({'prog': name, 'states': r['states'], 'transitions': r['transitions'], 'replayed': r['replayed'],
                                  'walks': r['paths'], 'drift': r['divergence'], 'invariants_violated': r['model_invariants_violated'],
                                  'liveness': r.get('liveness')})
                    for k, tr in enumerate(r['traces']):
                        tid = '%s|m%d.%d' % (name, ci, k)
                        c2 = dict(cfg)
                        c2['policy'] = ['script', tr['schedule']]
                        cfgs[tid] = c2
                        traces.append(tlc.make_trace(tid, pi, tr['lines'], amb=P['amb']))
                        nexec += 1
                elif cfg['policy'][0] == 'eager_enum':
                    n = 0
                    for ex in driver.enumerate_eager(
                            prog, limit=cfg['policy'][1],
                            make_exec=lambda: driver.Execution(dict(prog, collab=cfg['collab']) if cfg.get('collab') else prog,
                                                               overlap=cfg.get('overlap', False),
                                                               snap=snapshot if cfg.get('snap') else None,
                                                               max_actions=cfg.get('max_actions', 4000))):
                        tid = '%s|%d.%d' % (name, ci, n)
                        n += 1
                        c2 = dict(cfg)
                        c2['policy'] = ['script', [list(s) for s in ex.schedule]]
                        cfgs[tid] = c2
                        traces.append(tlc.make_trace(tid, pi, ex.rt.lines, amb=P['amb'], overlap=cfg.get('overlap', False)))
                        nexec += 1
                else:
                    lines, ex = execute(prog, cfg)
                    tid = '%s|%d' % (name, ci)
                    c2 = dict(cfg)
                    c2['schedule'] = [list(s) for s in ex.schedule]
                    cfgs[tid] = c2
                    traces.append(tlc.make_trace(tid, pi, lines, amb=P['amb'], faulty=bool(cfg.get('faulty')),
                                                 evfaulty=bool(((cfg.get('collab') or {}).get('ev') or {}).get('raise_at')),
                                                 overlap=cfg.get('overlap', False)))
                    nexec += 1
            except Exception:  # noqa: BLE001 - a harness crash on one program must not hide the rest
                errors.append('%s cfg %d: %s' % (name, ci, traceback.format_exc()[-1500:]))
    verdicts, stats = tlc.validate_batch(ptla, traces)
    out = {'n': nexec, 'stats': stats, 'errors': errors, 'viol': [], 'samples': [], 'clean': 0,
           'sigs': set(), 'model': minfo}
    byid = {t['id']: t for t in traces}
    for tid, v in verdicts.items():
        t = byid[tid]
        out['sigs'].add((tid.split('|')[0], len(t['lines']), tuple(x.get('n', x['e']) for x in t['lines'][:60])))
        if v:
            out['viol'].append({'id': tid, 'prog': tid.split('|')[0], 'clauses': sorted(set(v)),
                                'cfg': cfgs[tid], 'nlines': len(t['lines'])})
        else:
            out['clean'] += 1
    if traces:
        t = traces[len(traces) // 2]
        out['samples'].append({'id': t['id'], 'lines': t['lines'][:12], 'nlines': len(t['lines'])})
    out['sigs'] = len(out['sigs'])
    return out


# ------------------------------------------------------------------------------------------------------
# job construction per property
# ------------------------------------------------------------------------------------------------------

def base_cfgs(seed, nrand, eager_limit, **extra):
    cfgs = []
    if eager_limit:
        cfgs.append(dict(policy=['eager_enum', eager_limit], **extra))
    for i in range(nrand):
        cfgs.append(dict(policy=['random', seed * 100003 + i, [0.5, 0.7, 0.9, 0.97][i % 4]], **extra))
    # collaborators (event manager, artifact store) that really suspend: their completions are scheduled too
    modes = [{'ev': {'mode': 'yield'}}, {'save': {'mode': 'yield'}}, {'ev': {'mode': 'yield'}, 'save': {'mode': 'yield'}}]
    # (every other one behind a first manager that only cares about pipeline-level events)
    for i in range(max(1, nrand // 2)):
        col = dict(modes[i % 3], **({'evp': {}} if i % 2 == 0 else {}))
        cfgs.append(dict(policy=['random', seed * 100003 + 500 + i, [0.5, 0.8, 0.95][i % 3]], collab=col, **extra))
    # a collaborator that raises (the k-th event callback / save fails), next to a second event manager that suspends:
    # the reference value is unknown then (faulty=True: only the clauses that need no reference semantics apply)
    for i, k in enumerate((2, 3, 5, 8)[: max(1, nrand // 4)]):
        col = {'ev': {'raise_at': [k]}, 'ev2': {'mode': 'yield'}} if i % 2 == 0 else {'save': {'raise_at': [k]}, 'ev2': {'mode': 'yield'}}
        cfgs.append(dict(policy=['hold' if i % 2 == 0 else 'random', seed * 100003 + 900 + i, 0.8, 'ev2'], collab=col, faulty=True, **extra))
    # a second manager that raises in on_pipeline_complete: the first, well-behaved one still sees every event once
    cfgs.append(dict(policy=['random', seed * 100003 + 950, 0.8], collab={'ev2': {'raise_on_complete': True}}, faulty=True, **extra))
    # ... or in a node-level callback (call 3 is the first on_node_complete, call 5 the second one / a later node_start)
    for k in (3, 5):
        cfgs.append(dict(policy=['random', seed * 100003 + 960 + k, 0.8], collab={'ev2': {'raise_at': [k]}}, faulty=True, **extra))
    # ... or a manager registered BEFORE the recording one raises (the last callback it gets is call 1 + 2 * nodes + 1; a
    # large index hits on_pipeline_complete of small programs, small ones hit node callbacks)
    for k in (1, 4, 7):
        cfgs.append(dict(policy=['random', seed * 100003 + 970 + k, 0.8], collab={'ev0': {'raise_at': [k]}}, faulty=True, **extra))
    return cfgs


def cancel_cfgs(seed, nsched, max_at, stride):
    cfgs = []
    for s in range(nsched):
        for at in range(0, max_at, stride):
            cfgs.append(dict(policy=['random', seed * 7919 + s, [0.6, 0.8, 0.95][s % 3]], cancel={'r': 1, 'at': at}))
    return cfgs


def multi_run_variants(progs, seed):
    """programs with 2..3 runs built from the single-run variants of one shape"""
    groups = {}
    for p in progs:
        groups.setdefault(p['name'].split('#')[0], []).append(p)
    out = []
    for shape, members in sorted(groups.items()):
        runs = [copy.deepcopy(m['runs'][0]) for m in members]
        for k, r in enumerate(runs):
            r['input'] = {'x': 'tok%d' % k}
        seqs = []
        if len(runs) >= 2:
            seqs.append(('ab', [runs[0], runs[1]]))
            seqs.append(('ba', [runs[1], runs[0]]))
            seqs.append(('last', [runs[-1], runs[0], runs[-1]]))
        seqs.append(('aa', [runs[0], copy.deepcopy(runs[0])]))
        for tag, seq in seqs:
            q = copy.deepcopy(members[0])
            q['runs'] = copy.deepcopy(seq)
            for k, r in enumerate(q['runs']):
                r['input'] = dict(r['input'])
            q['name'] = '%s*%s' % (shape, tag)
            out.append(q)
    return out


def select(progs, pid):
    def has(p, *tags):
        return any(t in p.get('tags', ()) for t in tags)
    if pid == 'C06':
        return [p for p in progs if has(p, 'plain')]
    if pid == 'C09':
        return [p for p in progs if has(p, 'switch')]
    if pid == 'C10':
        return [p for p in progs if has(p, 'oneof')]
    if pid == 'C11':
        return [p for p in progs if has(p, 'rec')]
    if pid == 'C12':
        return [p for p in progs if has(p, 'retry')]
    return progs


def offset_cfgs(prog, limit, seed):
    """completions landing 1..6 actions after another completion (DESIGN 5.2: fire-at-step choices)"""
    import random
    names = [n['id'] for n in prog['nodes'] if n.get('mode', 'coro') != 'inline']
    pairs = [(a, b) for a in names for b in names if a != b]
    # back-to-back completions (offset 0) of every ordered pair first, then a seeded sample of the larger offsets
    cfgs = [dict(policy=['offset', a, b, 0]) for (a, b) in pairs]
    rest = [dict(policy=['offset', a, b, off]) for (a, b) in pairs for off in (1, 2, 3, 4, 5, 6)]
    rnd = random.Random('off/%s/%d' % (prog['name'], seed))
    if len(cfgs) > limit:
        cfgs = rnd.sample(cfgs, limit)
    room = limit - len(cfgs)
    if room > 0:
        cfgs += rnd.sample(rest, min(room, len(rest)))
    return cfgs


def random_programs(pid, tier, seed):
    from harness import gen
    quick = tier == 'quick'
    n = 40 if quick else 400
    feats = {'C09': ('switch', 'fail', 'retry'), 'C10': ('oneof', 'fail', 'retry'), 'C11': ('rec', 'fail', 'retry'),
             'C12': ('retry', 'fail', 'oneof')}.get(pid)
    out = []
    for i in range(n):
        kw = {'features': feats} if feats else {}
        out.append(gen.random_program(seed, i, **kw))
    if pid == 'C06':
        return gen.plain_shapes(seed, 30 if quick else 300)
    return out


def build_jobs(pid, tier, seed):
    progs = corpus.all_programs()
    quick = tier == 'quick'
    jobs = []
    if pid in ('C07', 'C08'):
        # the oracle is the outcome of a fresh/solo run of the same code: only sound where that outcome is
        # schedule-independent, so programs flagged ambiguous (DESIGN 4.2) are left to C01.det
        sel = multi_run_variants([p for p in progs if not programs.is_ambiguous(p)], seed)
        for p in sel:
            if pid == 'C07':
                cfgs = base_cfgs(seed, 3 if quick else 12, 0, snap=True, fresh=True)
            else:
                cfgs = base_cfgs(seed, 6 if quick else 30, 0, overlap=True, fresh=True)
            # the oracle is a fresh / solo run WITHOUT collaborator faults: keep the fault-free configurations
            cfgs = [c for c in cfgs if not c.get('faulty')]
            jobs.append((p['name'], p, cfgs))
        # model-guided: Engine2.tla (product of run managers on one loop) for two-run programs over small shapes
        try:
            with open(os.path.join(ROOT, 'spec', 'instance_sizes.json')) as f:
                sizes = json.load(f)
        except OSError:
            sizes = {}
        # (the product graph of two runs grows with the square of the single-run instance: a single-run instance of
        #  3000 transitions took more than four hours and 12 GB here, hence the caps also for the thorough tier)
        cap = (60 if pid == 'C08' else 400) if quick else (120 if pid == 'C08' else 700)
        budget = 14 if quick else 80
        for name, p, cfgs in jobs:
            if budget <= 0:
                break
            shape, tag = name.split('*')
            base = [sizes[k] for k in sizes if k.split('#')[0] == shape]
            if tag not in ('aa', 'ab') or not base or max(base) > cap:
                continue
            cfgs.append(dict(policy=['model2', 400 if quick else 6000], overlap=(pid == 'C08'), snap=False))
            budget -= 1
        return jobs
    sel = select(progs, pid)
    for p in sel:
        if pid == 'C13':
            cfgs = cancel_cfgs(seed, 2 if quick else 6, 60 if quick else 120, 3 if quick else 1)
            cfgs += base_cfgs(seed, 4 if quick else 20, 0)
        else:
            cfgs = base_cfgs(seed, 8 if quick else 60, 20 if quick else 300)
            cfgs += offset_cfgs(p, 64 if quick else 800, seed)
        jobs.append((p['name'], p, cfgs))
    # every curated shape once more with bodies that do not suspend (all nodes inline): which scope reaches a shared node
    # first, and whether a duplicate request gets its turn before or after the first one has finished, depends on it
    for p in list(sel):
        if all(n.get('mode') == 'inline' for n in p['nodes']) or any(r.get('recseq') for r in p['runs']):
            continue
        q = copy.deepcopy(p)
        for n in q['nodes']:
            n['mode'] = 'inline'
            if n.get('cotag'):
                n['cotag'] = False
        q['name'] = p['name'] + '~inl'
        q['tags'] = [t for t in p.get('tags', ()) if t != 'modes']
        cfgs = cancel_cfgs(seed, 1, 30, 6) if pid == 'C13' else base_cfgs(seed, 2, 0)
        jobs.append((q['name'], q, cfgs))
    sizes = {}
    try:
        with open(os.path.join(ROOT, 'spec', 'instance_sizes.json')) as f:
            sizes = json.load(f)
    except OSError:
        pass
    if True:
        # model-guided: TLC explores spec/Engine.tla for the instance exhaustively; every transition of the model's
        # state graph is replayed on the real engine (conformance) and the walks are validated at level O
        budget = (1500 if pid == 'C13' else 4000) if quick else 10 ** 9
        cap = 400 if quick else 60000
        chosen = []
        for name, p, cfgs in sorted(jobs, key=lambda j: sizes.get(j[0], 10 ** 9)):
            sz = sizes.get(name)
            if sz is None or sz > cap or programs.is_ambiguous(p) or any(r.get('recseq') for r in p['runs']):
                continue
            if budget - sz < 0:
                break
            budget -= sz
            chosen.append(name)
        for k, j in enumerate(j for j in jobs if j[0] in chosen):
            if pid == 'C13':
                # the caller cancels at EVERY reachable state of the instance's model (CancelRun)
                j[2].append(dict(policy=['model', 600 if quick else 100000, 'cancel']))
            else:
                # C02 additionally as a liveness property (fair loop => the run ends), every 4th instance when quick
                j[2].append(dict(policy=['model', 400 if quick else 100000], liveness=(pid == 'C02' and (not quick or k % 4 == 0))))
    if pid in ('C04', 'C14', 'C19', 'C13'):
        # the same with event callbacks and saves that really suspend: every `await emit_...` / `await save` of the
        # model becomes a scheduling point (check-then-act windows, cancellation inside a collaborator call)
        lim = 45 if quick else 250
        for j in jobs:
            sz = sizes.get(j[0])
            if sz is None or sz > lim or programs.is_ambiguous(j[1]) or any(r.get('recseq') for r in j[1]['runs']):
                continue
            mc = {'ev': 'yield', 'save': 'yield'} if sz <= 45 else {'ev': 'yield'}
            pol = ['model', 300 if quick else 100000] + (['cancel'] if pid == 'C13' and sz <= 30 else [])
            j[2].append(dict(policy=pol, mcollab=mc))
    for p in random_programs(pid, tier, seed):
        if pid == 'C13':
            cfgs = cancel_cfgs(seed, 1 if quick else 3, 60, 4 if quick else 1) + base_cfgs(seed, 2, 0)
        else:
            cfgs = base_cfgs(seed, 4 if quick else 20, 6 if quick else 60) + offset_cfgs(p, 24 if quick else 300, seed)
            if not programs.is_ambiguous(p):
                cfgs.append(dict(policy=['trace', 3 if quick else 12, seed * 1009]))
        jobs.append((p['name'], p, cfgs))
    return jobs


# ------------------------------------------------------------------------------------------------------
# known findings
# ------------------------------------------------------------------------------------------------------

def load_known():
    path = os.path.join(ROOT, 'known_findings.json')
    if not os.path.exists(path):
        return []
    with open(path) as f:
        return json.load(f)['findings']


def match_known(known, pid, prog, clause):
    shape = prog.split('*')[0].split('#')[0]
    for k in known:
        if k.get('status') != 'finding' or k['property'] != pid or k['clause'] != clause:
            continue
        if k.get('programs_any') or prog in k.get('programs', ()) or shape in k.get('shapes', ()):
            return k
    return None


# ------------------------------------------------------------------------------------------------------
# running a property
# ------------------------------------------------------------------------------------------------------

def chunks(jobs, n):
    jobs = sorted(jobs, key=lambda j: -len(j[2]))
    out = [[] for _ in range(n)]
    load = [0] * n
    for j in jobs:
        i = load.index(min(load))
        out[i].append(j)
        load[i] += sum(c['policy'][1] if c['policy'][0] == 'eager_enum' else (400 if c['policy'][0] in ('model', 'model2') else 60 if c['policy'][0] == 'trace' else 1) for c in j[2])
    out = [sorted(c, key=lambda j: j[0]) for c in out if c]
    return out


HASHCHILD = os.environ.get('VERIF_HASHCHILD')


def hash_seed_children(pid, tier, seed):
    """The order in which a finished node notifies its descendants is a SET iteration (DESIGN 2.2): it varies with the
    interpreter's string-hash seed.  The model instance carries the order networkx produces in the exporting process,
    so the model-guided part is repeated in child interpreters started with other PYTHONHASHSEED values."""
    import subprocess
    seeds = [1] if tier == 'quick' else [1, 2, 3, 5]
    out = []
    for hs in seeds:
        env = dict(os.environ, PYTHONHASHSEED=str(hs), VERIF_HASHCHILD=str(hs), VERIF_SEED=str(seed))
        p = subprocess.run([sys.executable, '-m', 'harness.checks', pid, '--tier', 'quick'], cwd=ROOT, env=env,
                           capture_output=True, text=True, timeout=3600)
        info = {'hashseed': hs, 'rc': p.returncode}
        for line in p.stdout.splitlines():
            if line.startswith('HASHCHILD '):
                info.update(json.loads(line[len('HASHCHILD '):]))
            elif line.startswith(('VIOLATION', 'KNOWN-FINDING', 'MODEL-DRIFT', 'HARNESS-ERROR', 'MACHINERY')):
                print(line + ('  # PYTHONHASHSEED=%d' % hs if line.startswith('VIOLATION') else ''))
        out.append(info)
    return out


def run_runtime(pid, tier, seed):
    t0 = time.time()
    jobs = build_jobs(pid, tier, seed)
    if HASHCHILD:
        # keep only the model-guided configurations of the curated instances (a third of them when quick)
        jobs = [(n, p, [c for c in cfgs if c['policy'][0] in ('model', 'model2')]) for n, p, cfgs in jobs]
        jobs = [j for j in jobs if j[2]]
        jobs = jobs[int(HASHCHILD) % 3::3]
    parts = chunks(jobs, NWORKERS * 2)
    results = []
    with concurrent.futures.ProcessPoolExecutor(NWORKERS) as pool:
        for res in pool.map(work, parts):
            results.append(res)
    known = load_known()
    total = sum(r['n'] for r in results)
    states = sum(r['stats'].get('distinct', 0) for r in results)
    gen = sum(r['stats'].get('generated', 0) for r in results)
    errors = [e for r in results for e in r['errors']]
    sigs = sum(r['sigs'] for r in results)
    new_viol = []
    known_hits = {}
    other_props = {}
    for r in results:
        for v in r['viol']:
            mine = sorted({c for c, _ in v['clauses'] if c.startswith(pid + '.')})
            for c, _ in v['clauses']:
                if not c.startswith(pid + '.'):
                    other_props[c] = other_props.get(c, 0) + 1
            fresh = []
            for c in mine:
                k = match_known(known, pid, v['prog'], c)
                if k is not None:
                    known_hits.setdefault((c, k['what']), set()).add(v['prog'])
                else:
                    fresh.append(c)
            if fresh:
                new_viol.append(dict(v, clauses_new=fresh))
    rc = 0
    children = []
    if not HASHCHILD and pid not in ('C07', 'C08'):
        children = hash_seed_children(pid, tier, seed)
        if any(ch['rc'] == 1 for ch in children):
            rc = 1
        elif any(ch['rc'] not in (0, 1) for ch in children):
            rc = 2
    os.makedirs(os.path.join(ROOT, 'replays'), exist_ok=True)
    for (c, what), progs_hit in sorted(known_hits.items()):
        print('KNOWN-FINDING: property=%s %s [%s] (re-observed on %s)' % (pid, what, c, ', '.join(sorted(progs_hit)[:4])))
    reported = set()
    for v in new_viol:
        key = (v['prog'], tuple(v['clauses_new']))
        if key in reported:
            continue
        reported.add(key)
        path = os.path.join(ROOT, 'replays', '%s%s_%s_%d.json' % (pid, ('hs' + HASHCHILD) if HASHCHILD else '',
                                                                  v['prog'].replace('#', '_').replace('*', '_'), len(reported)))
        prog = [j[1] for j in jobs if j[0] == v['prog']][0]
        with open(path, 'w') as f:
            json.dump({'property': pid, 'program': prog, 'cfg': v['cfg'], 'clauses': v['clauses'],
                       'clauses_new': v['clauses_new']}, f)
        print('VIOLATION property=%s replay=%s  # program=%s clauses=%s' % (pid, path, v['prog'], ','.join(v['clauses_new'])))
        rc = 1
    if errors:
        for e in errors[:5]:
            print('HARNESS-ERROR: ' + e.replace('\n', ' | ')[-600:])
        rc = 2 if rc == 0 else rc
    samples = [s for r in results for s in r['samples']][:3]
    minfo = [m for r in results for m in r.get('model', [])]
    drift = [m for m in minfo if m['drift']]
    for m in drift[:6]:
        print('MODEL-DRIFT instance=%s step=%s diff=%s' % (m['prog'], m['drift'].get('step'),
              json.dumps(m['drift'].get('diff (model, real)', m['drift']))[:300]))
    evidence = {
        'property_id': pid, 'tier': tier, 'seed': seed, 'level': 'model_checking',
        'coverage': {
            'states': max(states + sum(m['states'] for m in minfo), 1), 'transitions': max(gen + sum(m['transitions'] for m in minfo), 1),
            'traces_validated_against_impl': total,
            'samples': samples,
            'programs': len(jobs),
            'engine_model': {'instances': len(minfo), 'states': sum(m['states'] for m in minfo),
                             'transitions': sum(m['transitions'] for m in minfo),
                             'model_transitions_replayed_on_code': sum(m['replayed'] for m in minfo),
                             'walks': sum(m['walks'] for m in minfo),
                             'drift_instances': [m['prog'] for m in drift],
                             'model_invariants_violated': {m['prog']: m['invariants_violated'] for m in minfo if m['invariants_violated']},
                             'code_to_spec_scripts': sum(m.get('scripts', 0) for m in minfo),
                             'code_to_spec_script_steps': sum(m.get('script_steps', 0) for m in minfo),
                             'liveness_checked': sum(1 for m in minfo if m.get('liveness')),
                             'liveness_failed': [m['prog'] for m in minfo if m.get('liveness') and not m['liveness']['ok']]},
            'distinct_trace_signatures': sigs,
            'clauses_of_other_properties_seen': other_props,
            'known_findings_reobserved': sorted('%s: %s' % (c, w) for (c, w) in known_hits),
            'explanation': 'states/transitions: TLC on spec/ObsTrace.tla consuming recorded executions of the real engine '
                           '(one state per consumed line); every clause of Appendix A evaluated at every line',
        },
        'assumptions': ['virtual single-step event loop orders callbacks like BaseEventLoop (FIFO ready queue, deadline-ordered timers)',
                        'generated node bodies are deterministic functions of their arguments and attempt number',
                        'TLC 1.8 and CommunityModules Json/IOUtils'],
        'wall_s': round(time.time() - t0, 2),
        'violations': len(reported),
    }
    if HASHCHILD:
        print('HASHCHILD ' + json.dumps({'executions': total, 'instances': len(minfo), 'model_states': sum(m['states'] for m in minfo),
                                         'replayed': sum(m['replayed'] for m in minfo), 'transitions': sum(m['transitions'] for m in minfo),
                                         'drift': [m['prog'] for m in drift], 'violations': len(reported)}))
        return rc
    evidence['coverage']['hash_seeds'] = [0] + [ch['hashseed'] for ch in children]
    evidence['coverage']['hash_seed_children'] = children
    evidence['coverage']['traces_validated_against_impl'] = total + sum(ch.get('executions', 0) for ch in children)
    evidence['violations'] = len(reported) + sum(ch.get('violations', 0) for ch in children)
    os.makedirs(os.path.join(ROOT, 'evidence'), exist_ok=True)
    with open(os.path.join(ROOT, 'evidence', pid + '.json'), 'w') as f:
        json.dump(evidence, f, indent=1)
    print('%s %s: %d executions of %d programs validated by TLC (%d states), %d new violation(s), %d known finding(s); '
          'Engine.tla: %d instances, %d states, %d/%d transitions replayed on the code, %d recorded executions followed '
          'step by step, %d drifted; %.1fs'
          % (pid, tier, total, len(jobs), states, len(reported), len(known_hits), sum(1 for m in minfo if not m.get('scripts')),
             sum(m['states'] for m in minfo), sum(m['replayed'] for m in minfo), sum(m['transitions'] for m in minfo),
             sum(m.get('scripts', 0) for m in minfo), len(drift), time.time() - t0))
    return rc


# ------------------------------------------------------------------------------------------------------
# C17: execution modes and pools
# ------------------------------------------------------------------------------------------------------

POOLS_MC_CFG = '''SPECIFICATION SpecP
CONSTANTS
 TPools <- MCT
 PPools <- MCP
 Mgrs <- MCM
INVARIANT TypeOK
INVARIANT RunsOnlyWithPools
PROPERTY FirstWins
PROPERTY DownIsFinal
PROPERTY NeverReadyAgain
CHECK_DEADLOCK FALSE
'''

MODE_NAMES = ['coro', 'inline', 'thread', 'process', 'ncoro']      # ncoro: coroutine body + non_async tag


def with_modes(prog, modes, tag):
    q = copy.deepcopy(prog)
    for n, m in zip(q['nodes'], modes):
        n['mode'] = 'coro' if m == 'ncoro' else m
        n['cotag'] = m == 'ncoro'
        if m == 'process':
            # per-attempt plans are kept by the process that runs the body; keep process nodes single-attempt
            n['attempts'] = None
        n['delay'] = None if not n.get('delay') else 0
    q['name'] = '%s@%s' % (prog['name'], tag)
    return q


def c17_programs(tier, seed):
    import itertools
    import random
    from harness import gen
    quick = tier == 'quick'
    rnd = random.Random('c17/%d' % seed)
    base = []
    seen = set()
    for p in corpus.all_programs():
        shape = p['name'].split('#')[0]
        if p['name'].count('#') and shape in seen and rnd.random() < 0.6:
            continue
        seen.add(shape)
        if programs.is_ambiguous(p) or any(t in p.get('tags', ()) for t in ('D8', 'D9')):
            continue
        base.append(p)
    for i in range(20 if quick else 200):
        base.append(gen.random_program(seed + 777, i, modes=False, features=('switch', 'oneof', 'rec', 'fail')))
    out = []
    for p in base:
        k = len(p['nodes'])
        if k <= 3:
            assigns = list(itertools.product(MODE_NAMES, repeat=k))
        else:
            assigns = [tuple(rnd.choice(MODE_NAMES) for _ in range(k)) for _ in range(6 if quick else 40)]
            assigns += [tuple([m] * k) for m in MODE_NAMES]
        for a in dict.fromkeys(assigns):        # the same assignment drawn twice is one program
            out.append(with_modes(p, a, ''.join(x[0] for x in a)))
    return out


def run_c17(tier, seed):
    from harness import realloop
    t0 = time.time()
    quick = tier == 'quick'
    progs = c17_programs(tier, seed)
    # (a) virtual loop: every mode assignment under random schedules
    jobs = [(p['name'], p, base_cfgs(seed, 2 if quick else 6, 0)) for p in progs]
    parts = chunks(jobs, NWORKERS * 2)
    results = []
    with concurrent.futures.ProcessPoolExecutor(NWORKERS) as pool:
        for res in pool.map(work, parts):
            results.append(res)
    viol = []
    for r in results:
        for v in r['viol']:
            cl = sorted({c for c, _ in v['clauses'] if c.split('.')[0] in ('C01', 'C02', 'C03', 'C04', 'C05', 'C17')})
            if cl:
                viol.append(('virtual', v['prog'], cl, v['cfg'], [j[1] for j in jobs if j[0] == v['prog']][0]))
    nvirtual = sum(r['n'] for r in results)
    states = sum(r['stats'].get('distinct', 0) for r in results)
    herrors = [e for r in results for e in r['errors']]
    # (b) real SelectorEventLoop, real thread and fork process pools, uncontrolled timing
    import random
    rnd = random.Random('c17real/%d' % seed)
    # (a StopIteration raised in a worker PROCESS comes back as a RuntimeError without its cause - exceptions are
    #  pickled without __cause__ - so its provenance token cannot be recovered: such plans stay on the virtual loop)
    def real_ok(p):
        procs = {n['id'] for n in p['nodes'] if n['mode'] == 'process'}
        return not any(o == 'raise:SI' for r in p['runs'] for nid, outs in r.get('plan', {}).items() if nid in procs for o in outs)
    cands = [p for p in progs if real_ok(p)]
    real = rnd.sample(cands, min(len(cands), 60 if quick else 600))
    groups = [real[i::6] for i in range(6)]

    def run_group(g):
        jobs_ = [{'id': p['name'], 'prog': p, 'pools': 'ok', 'seed': seed * 31 + i} for i, p in enumerate(g)]
        return realloop.run_in_subprocess(jobs_, timeout=600) if jobs_ else []
    real_out = []
    with concurrent.futures.ThreadPoolExecutor(6) as pool:
        for o in pool.map(run_group, groups):
            real_out += o
    byname = {p['name']: p for p in progs}
    # (c) pool registry states: fresh interpreter each
    C = corpus
    need_thread = C.P('need_thread', [C.N('A', mode='coro'), C.N('B', C.I('p1', 'A'), mode='thread'), C.N('O', C.I('p1', 'B'), mode='coro')], 'A', 'O')
    need_proc = C.P('need_process', [C.N('A', mode='coro'), C.N('B', C.I('p1', 'A'), mode='coro'), C.N('O', C.I('p1', 'B'), mode='process')], 'A', 'O')
    need_both = C.P('need_both', [C.N('A', mode='thread'), C.N('B', C.I('p1', 'A'), mode='process'), C.N('O', C.I('p1', 'B'), mode='coro')], 'A', 'O')
    late_proc = C.P('late_process', [C.N('A', mode='thread'), C.N('B', C.I('p1', 'A'), mode='thread'), C.N('K', C.I('p1', 'B'), mode='process'),
                                     C.N('O', C.I('p1', 'K'), mode='thread')], 'A', 'O')
    all_coro = C.P('all_coro', [C.N('A', mode='coro'), C.N('B', C.I('p1', 'A'), mode='coro'), C.N('O', C.I('p1', 'B'), mode='coro')], 'A', 'O')
    pool_cases = {
        'none': [(need_thread, True), (need_proc, True), (need_both, True), (late_proc, True), (all_coro, False)],
        'thread_shutdown': [(need_thread, True), (need_both, True), (late_proc, True), (all_coro, False)],
        'no_process': [(need_proc, True), (need_both, True), (late_proc, True), (need_thread, False), (all_coro, False)],
        'no_manager': [(need_proc, True), (late_proc, True), (need_thread, False)],
        'process_shutdown': [(need_proc, True), (need_both, True), (late_proc, True), (need_thread, False)],
    }
    pool_out = []
    for state, cases in pool_cases.items():
        jobs_ = [{'id': '%s/%s' % (state, p['name']), 'prog': p, 'pools': state, 'seed': 1} for p, _ in cases]
        outs = realloop.run_in_subprocess(jobs_, timeout=120)
        for (p, missing), o in zip(cases, outs):
            byname[o['id']] = p
            o['poolmissing'] = missing
            pool_out.append(o)
    # (c') the registries and the fail-fast check as a state machine: spec/Pools.tla model-checked, then random and
    # directed call histories of the REAL registries (fresh interpreter each) validated by spec/PoolsTrace.tla
    from harness import pools as _pools
    mc = tlc.model_check('MC_Pools', POOLS_MC_CFG)
    if not mc['ok']:
        raise tlc.TLCError('Pools.tla model check failed:\n' + mc['out_tail'])
    hs = _pools.histories(seed, 48 if quick else 600)
    houts = _pools.run_histories(hs)
    for o in houts:
        if 'error' in o:
            herrors.append('%s: %s' % (o['id'], o['error']))
    good = [o for o in houts if 'error' not in o]
    pverd, pst = tlc.run_batch('PoolsTrace', {'histories': good}, len(good))
    states += pst.get('distinct', 0) + mc.get('distinct', 0)
    pool_hist_ops = sum(len(o['ops']) for o in good)
    pool_drift = 0
    for hid, v in sorted(pverd.items()):
        ops = [o for o in good if o['id'] == hid][0]['ops']
        bad = sorted({c for c, _ in v if c.startswith('C17')})
        if bad:
            viol.append(('registry', hid, bad, {'history': ops, 'lines': sorted({l for c, l in v if c.startswith('C17')})}, {'name': hid}))
        drift = sorted({(c, l) for c, l in v if c.startswith('drift')})
        if drift:
            # the registries do not behave as Pools.tla says, without C17 being violated: the specification is out of date
            pool_drift += 1
            c, l = drift[0]
            print('MODEL-DRIFT instance=Pools.tla/%s step=%d diff=%s' % (hid, l, json.dumps({'clause': c, 'call': ops[l - 1]})))
    # validate all real-loop histories at level O
    ptla = []
    traces = []
    for o in real_out + pool_out:
        if 'error' in o:
            herrors.append('%s: %s' % (o['id'], o['error']))
            continue
        p = byname[o['id']]
        ptla.append(programs.to_tla(p))
        traces.append(tlc.make_trace(o['id'], len(ptla), o['lines'], poolmissing=o.get('poolmissing', False)))
    verdicts, st = tlc.validate_batch(ptla, traces)
    states += st.get('distinct', 0)
    for tid, v in verdicts.items():
        cl = sorted({c for c, _ in v if c.split('.')[0] in ('C01', 'C02', 'C03', 'C04', 'C05', 'C17')})
        if cl:
            viol.append(('real', tid, cl, {'real': True}, byname[tid]))
    os.makedirs(os.path.join(ROOT, 'replays'), exist_ok=True)
    reported = set()
    for kind, name, cl, cfg, prog in viol:
        key = (kind, name.split('@')[0], tuple(cl))
        if key in reported:
            continue
        reported.add(key)
        path = os.path.join(ROOT, 'replays', 'C17_%s_%d.json' % (kind, len(reported)))
        with open(path, 'w') as f:
            json.dump({'property': 'C17', 'program': prog, 'cfg': cfg, 'clauses': cl, 'loop': kind}, f)
        what = 'C17.pool' if 'C17.pool' in cl else 'C17.mode'
        print('VIOLATION property=C17 replay=%s  # %s loop, program=%s clauses=%s (%s)' % (path, kind, name, what, ','.join(cl)))
    for e in herrors[:5]:
        print('HARNESS-ERROR: ' + e.replace('\n', ' | ')[-600:])
    evidence = {
        'property_id': 'C17', 'tier': tier, 'seed': seed, 'level': 'model_checking',
        'coverage': {'states': max(states, 1), 'transitions': max(states, 1),
                     'traces_validated_against_impl': nvirtual + len(traces),
                     'virtual_loop_executions': nvirtual, 'real_loop_executions': len(real_out),
                     'pool_registry_cases': len(pool_out), 'mode_assignments': len(progs),
                     'pool_registry_model': {'states': mc.get('distinct', 0), 'properties': ['TypeOK', 'RunsOnlyWithPools', 'FirstWins', 'DownIsFinal', 'NeverReadyAgain']},
                     'pool_registry_histories': len(good), 'pool_registry_calls': pool_hist_ops,
                     'samples': [{'id': t['id'], 'lines': t['lines'][:10]} for t in traces[:2]],
                     'explanation': 'every mode assignment on the virtual loop; a sample on a real SelectorEventLoop with real '
                                    'ThreadPoolExecutor / fork ProcessPoolExecutor (timing sampled, not enumerated); five pool '
                                    'registry states in fresh interpreters'},
        'assumptions': ['real pool timing is sampled, never enumerated', 'process-mode nodes are single-attempt (per-process attempt counters)'],
        'wall_s': round(time.time() - t0, 2), 'violations': len(reported)}
    with open(os.path.join(ROOT, 'evidence', 'C17.json'), 'w') as f:
        json.dump(evidence, f, indent=1)
    print('C17 %s: %d mode assignments; %d virtual-loop + %d real-loop executions + %d pool-registry cases validated by TLC; '
          'Pools.tla: %d states, %d call histories (%d calls) of the real registries validated; %d new violation(s), %.1fs'
          % (tier, len(progs), nvirtual, len(real_out), len(pool_out), mc.get('distinct', 0), len(good), pool_hist_ops, len(reported),
             time.time() - t0))
    if reported:
        return 1
    return 2 if herrors else 0


def replay(path):
    driver.install_fake_pools()
    with open(path) as f:
        rp = json.load(f)
    prog = rp['program']
    cfg = rp['cfg']
    if 'schedule' in cfg:
        cfg = dict(cfg)
        cfg['policy'] = ['script', cfg['schedule']]
    lines, ex = execute(prog, cfg)
    P = programs.to_tla(prog)
    v, _ = tlc.validate_batch([P], [tlc.make_trace('replay', 1, lines, amb=P['amb'], overlap=cfg.get('overlap', False))])
    for i, ln in enumerate(to_json(lines), 1):
        print(i, json.dumps(ln)[:400])
    print('clauses violated:', sorted(set(v['replay'])))
    return 1 if v['replay'] else 0


def sweep(seed, count, nrand=6, eager=10, features=None, collab=None):
    """development aid: random programs of one seed, all clauses, aggregated by program"""
    from harness import gen
    jobs = []
    for i in range(count):
        kw = {}
        if features is not None:
            kw['features'] = features
        p = gen.random_program(seed, i, **kw)
        if collab:
            p['collab'] = collab
        jobs.append((p['name'], p, base_cfgs(seed, nrand, eager)))
    parts = chunks(jobs, NWORKERS * 2)
    agg = {}
    n = 0
    with concurrent.futures.ProcessPoolExecutor(NWORKERS) as pool:
        for res in pool.map(work, parts):
            n += res['n']
            for e in res['errors']:
                print('HARNESS-ERROR', e[-800:])
            for v in res['viol']:
                key = (v['prog'], tuple(sorted({c for c, _ in v['clauses']})))
                agg.setdefault(key, []).append(v)
    print('sweep seed=%d programs=%d executions=%d violating (program, clause-set) pairs=%d' % (seed, count, n, len(agg)))
    os.makedirs(os.path.join(ROOT, 'replays'), exist_ok=True)
    for (prog, cl), vs in sorted(agg.items()):
        p = [j[1] for j in jobs if j[0] == prog][0]
        path = os.path.join(ROOT, 'replays', 'sweep_%s_%d.json' % (prog, abs(hash(cl)) % 1000))
        with open(path, 'w') as f:
            json.dump({'property': 'sweep', 'program': p, 'cfg': vs[0]['cfg'], 'clauses': vs[0]['clauses']}, f)
        print(prog, ','.join(cl), 'x%d' % len(vs), path)
    return 0


def main(argv):
    if argv and argv[0] == 'selftest':
        from harness import selftest
        return selftest.run()
    if argv and argv[0] == 'sweep':
        feats = tuple(argv[3].split(',')) if len(argv) > 3 and argv[3] != '-' else None
        collab = json.loads(argv[4]) if len(argv) > 4 else None
        return sweep(int(argv[1]), int(argv[2]), features=feats, collab=collab)
    if len(argv) >= 2 and argv[0] == 'replay':
        return replay(argv[1])
    pid = argv[0]
    tier = os.environ.get('VERIF_TIER', 'quick')
    if '--tier' in argv:
        tier = argv[argv.index('--tier') + 1]
    seed = int(os.environ.get('VERIF_SEED', '0'))
    try:
        if pid in RUNTIME_PROPS:
            return run_runtime(pid, tier, seed)
        if pid == 'C17':
            return run_c17(tier, seed)
        from harness import sidechecks
        return sidechecks.run(pid, tier, seed)
    except tlc.TLCError as e:
        print('MACHINERY-FAILURE: ' + str(e)[-3000:])
        return 2


if __name__ == '__main__':
    sys.exit(main(sys.argv[1:]))
