"""Run TLC on level-O batches (spec/ObsTrace.tla) and read back the total verdicts."""
import json
import os
import shutil
import subprocess
import tempfile
import time

from . import programs
from .runtime import to_json

SPEC_DIR = os.environ.get('VERIF_SPEC_DIR') or os.path.join(os.path.dirname(os.path.dirname(os.path.abspath(__file__))), 'spec')
JAR = '/opt/veriftools/tla/tla2tools.jar'
CM = '/opt/veriftools/tla/CommunityModules-deps.jar'


def tlc_cmd():
    return shutil.which('tlc') or 'tlc'


class TLCError(RuntimeError):
    pass


def run_tlc(spec, cfg, env=None, workdir=None, workers=1, extra=(), timeout=3600):
    """run TLC on spec (module name in SPEC_DIR) with config text cfg; returns (stdout, stats)"""
    tmp = tempfile.mkdtemp(prefix='verif_tlc_')
    try:
        for f in os.listdir(SPEC_DIR):
            if f.endswith('.tla'):
                shutil.copy(os.path.join(SPEC_DIR, f), tmp)
        with open(os.path.join(tmp, spec + '.cfg'), 'w') as f:
            f.write(cfg)
        e = dict(os.environ)
        e.update(env or {})
        # the stock `tlc` wrapper starts a ParallelGC / tiered-JIT JVM (about 6 CPU-seconds per start on 16 cores);
        # the many short runs made here are 4x cheaper with the serial collector and the C1 compiler only
        jopts = os.environ.get('VERIF_JAVA_OPTS', '-XX:+UseSerialGC -XX:TieredStopAtLevel=1 -Xss32m').split()
        cmd = ['java'] + jopts + ['-cp', JAR + ':' + CM, 'tlc2.TLC', '-workers', str(workers),
               '-metadir', os.path.join(tmp, 'meta'), '-noGenerateSpecTE', '-config', spec + '.cfg'] + list(extra) + [spec + '.tla']
        t0 = time.time()
        p = subprocess.run(cmd, cwd=tmp, env=e, capture_output=True, text=True, timeout=timeout)
        out = p.stdout + p.stderr
        stats = {'wall_s': time.time() - t0, 'rc': p.returncode}
        for line in out.splitlines():
            if 'states generated' in line and 'distinct states found' in line:
                parts = line.replace(',', '').split()
                try:
                    stats['generated'] = int(parts[0])
                    stats['distinct'] = int(parts[3])
                except ValueError:
                    pass
        return out, stats
    finally:
        shutil.rmtree(tmp, ignore_errors=True)


OBS_CFG = '''SPECIFICATION Spec
INVARIANT AllConsumed
CHECK_DEADLOCK FALSE
'''


def make_trace(tid, pi, lines, amb=False, overlap=False, poolmissing=False, faulty=False, evfaulty=False):
    return {'id': tid, 'pi': pi, 'amb': bool(amb) or bool(faulty), 'overlap': bool(overlap), 'poolmissing': bool(poolmissing),
            'faulty': bool(faulty), 'evfaulty': bool(evfaulty),
            'lines': to_json(lines)}


def run_batch(spec, payload, n_expected, timeout=3600):
    """generic batch validation: payload is written as TRACE_FILE; the spec writes OUT_FILE
    (a JSON sequence of [id, viol]).  Returns ({id: [(clause, line)...]}, stats)"""
    tmp = tempfile.mkdtemp(prefix='verif_batch_')
    try:
        tf = os.path.join(tmp, 'batch.json')
        of = os.path.join(tmp, 'out.json')
        with open(tf, 'w') as f:
            json.dump(payload, f)
        out, stats = run_tlc(spec, OBS_CFG, env={'TRACE_FILE': tf, 'OUT_FILE': of}, timeout=timeout)
        if not os.path.exists(of) or 'Error:' in out:
            raise TLCError('TLC failed on %s batch:\n%s' % (spec, out[-4000:]))
        with open(of) as f:
            res = json.load(f)
        verdicts = {item['id']: [tuple(v) for v in item['viol']] for item in res}
        if len(verdicts) != n_expected:
            raise TLCError('verdict count mismatch %d != %d' % (len(verdicts), n_expected))
        return verdicts, stats
    finally:
        shutil.rmtree(tmp, ignore_errors=True)


def model_check(spec, cfg, workers=4, timeout=3600, extra=()):
    """exhaustive TLC run of a model instance; returns stats incl. 'ok'"""
    out, stats = run_tlc(spec, cfg, workers=workers, timeout=timeout, extra=extra)
    stats['ok'] = 'Model checking completed. No error has been found.' in out
    stats['out_tail'] = out[-3000:]
    return stats


def validate_batch(progs_tla, traces, timeout=3600):
    """progs_tla: list of to_tla() programs; traces: list of make_trace().  Returns
    (verdicts {id: [[clause, line], ...]}, stats)"""
    if not traces:
        return {}, {'generated': 0, 'distinct': 0, 'wall_s': 0.0}
    tmp = tempfile.mkdtemp(prefix='verif_batch_')
    try:
        tf = os.path.join(tmp, 'batch.json')
        of = os.path.join(tmp, 'out.json')
        with open(tf, 'w') as f:
            json.dump({'programs': progs_tla, 'traces': traces}, f)
        out, stats = run_tlc('ObsTrace', OBS_CFG, env={'TRACE_FILE': tf, 'OUT_FILE': of}, timeout=timeout)
        if not os.path.exists(of) or 'Error:' in out:
            raise TLCError('TLC failed on level-O batch:\n' + out[-4000:])
        with open(of) as f:
            res = json.load(f)
        verdicts = {}
        for item in res:
            verdicts[item['id']] = [tuple(v) for v in item['viol']]
        if len(verdicts) != len(traces):
            raise TLCError('verdict count mismatch %d != %d' % (len(verdicts), len(traces)))
        return verdicts, stats
    finally:
        shutil.rmtree(tmp, ignore_errors=True)
