"""Instances of spec/Engine.tla: exported from the REAL build_dag result for a program, so that the model runs on
the graph the engine runs on (DESIGN 4.4), plus running TLC on them."""
import json
import os
import tempfile

import networkx as nx

from . import programs
from . import runtime as rtm
from . import tlc


def export_instance(prog, run_index=0, cancel=False, collab=None, overlap=False):
    rt = rtm.Runtime()
    chart, dag, classes = programs.build_chart(prog, rt)
    g = dag.graph
    byid = programs.node_by_id(prog)
    short = rtm.short
    nodes = [short(n) for n in g.nodes]
    attr = {}
    runs = []
    for run in prog['runs']:
        runs.append({'plan': {}, 'plan_it': {}, 'recreq': {}, 'recfalsy': {}, 'recnone': {}})
    for n in g.nodes:
        d = g.nodes[n]
        s = short(n)
        real = s in byid
        spec = byid.get(s, {})
        attr[s] = {
            'is_switch': bool(d.get('is_switch')), 'is_head': bool(d.get('is_oneof')),
            'is_child': bool(d.get('is_oneof_child')), 'oneof': [short(c) for c in d.get('oneof_nodes', [])],
            'start': short(d['start_node']) if d.get('start_node') else '-', 'maxit': int(d.get('max_iterations') or 0),
            'real': real, 'attempts': int(spec.get('attempts') or 1), 'delay': int(round((spec.get('delay') or 0) * 1000)),
            'excs': list(spec['exceptions'] if spec.get('exceptions') is not None else ['Exception']), 'use_default': bool(spec.get('use_default')),
            'mode': spec.get('mode', 'coro') if real else 'coro',
        }
        for rc, run in zip(runs, prog['runs']):
            rc['plan'][s] = [programs.parse_outcome(o) for o in (run['plan'].get(s) or ['ok'])]
            rc['recreq'][s] = int(run['recreq'].get(s, -1))
            rc['recfalsy'][s] = s in run.get('recfalsy', ())
            rc['recnone'][s] = [int(x) for x in run.get('recnone', {}).get(s, [])]
            rc['plan_it'][s] = [[programs.parse_outcome(o) for o in ep] for ep in (run.get('plan_it', {}).get(s) or [])]
    succ = {short(n): [short(v) for v in g.successors(n)] for n in g.nodes}
    edge = {}
    for u in g.nodes:
        edge[short(u)] = {'-': {'kw': '-', 'sw': False, 'cs': '-'}}
        for v in g.successors(u):
            ed = g.edges[(u, v)]
            kw = ed.get('kwarg_name')
            cs = ed.get('case_branch')
            edge[short(u)][short(v)] = {'kw': str(kw) if kw is not None else '-', 'sw': bool(ed.get('is_switch')),
                                        'cs': str(cs) if cs is not None else '-'}
    desc = {short(n): [short(x) for x in list(nx.descendants_at_distance(g, n, 1))] for n in g.nodes}
    return {'name': prog['name'], 'nodes': nodes, 'attr': attr, 'succ': succ, 'edge': edge, 'desc': desc, 'runs': runs,
            'input': short(dag.input_node), 'output': short(dag.output_node),
            'prog': programs.to_tla(prog), 'cancel': bool(cancel), 'overlap': bool(overlap),
            'collab': {'ev': (collab or {}).get('ev', 'sync'), 'save': (collab or {}).get('save', 'sync')}}


ENGINE_CFG = '''SPECIFICATION Spec
VIEW View
INVARIANT NoStuck
INVARIANT AtMostOnce
INVARIANT CleanStarts
INVARIANT OutcomeOK
INVARIANT SiblingsConcurrent
CHECK_DEADLOCK FALSE
'''


def check_instance(inst, cfg=ENGINE_CFG, workers=4, extra=('-continue',), timeout=1800):
    f = tempfile.NamedTemporaryFile('w', suffix='.json', delete=False)
    json.dump(inst, f)
    f.close()
    try:
        out, stats = tlc.run_tlc('Engine', cfg, env={'INSTANCE_FILE': f.name}, workers=workers, extra=extra, timeout=timeout)
    finally:
        os.unlink(f.name)
    stats['ok'] = 'Model checking completed. No error has been found.' in out
    stats['out'] = out
    return stats


LIVENESS_CFG = '''SPECIFICATION FairSpec
PROPERTY Termination
CHECK_DEADLOCK FALSE
'''


def check_liveness(inst, workers=2, timeout=1800):
    """C02 as a liveness property: under weak fairness of the loop every behaviour ends the run (no state constraint,
    no VIEW)"""
    return check_instance(inst, cfg=LIVENESS_CFG, workers=workers, extra=(), timeout=timeout)


ENGINE2_CFG = '''SPECIFICATION Spec2
VIEW View2
INVARIANT SoloOutcome
INVARIANT NoStuck2
INVARIANT CleanStarts2
CHECK_DEADLOCK FALSE
'''


def check_instance2(inst, cfg=ENGINE2_CFG, workers=1, extra=('-continue',), timeout=1800):
    f = tempfile.NamedTemporaryFile('w', suffix='.json', delete=False)
    json.dump(inst, f)
    f.close()
    try:
        out, stats = tlc.run_tlc('Engine2', cfg, env={'INSTANCE_FILE': f.name}, workers=workers, extra=extra, timeout=timeout)
    finally:
        os.unlink(f.name)
    stats['ok'] = 'Model checking completed. No error has been found.' in out
    stats['out'] = out
    return stats
