"""Seeded random programs (DESIGN 6.2, 7): block-structured generator.

The grammar is restricted to the fragment in which the unchanged engine is believed to satisfy the
properties; shapes outside it live in the curated corpus with their known findings:
  * nodes strictly inside a recurrent sub-graph are not visible to later blocks (D8),
  * no switch inside a recurrent sub-graph (D9),
  * a recurrent destination is consumed only through its RecurrentSubGraph mark.
"""
import random

from .corpus import I
from .corpus import N
from .corpus import OO
from .corpus import RC
from .corpus import SW
from .programs import normalise

MODES = ['coro', 'coro', 'coro', 'thread', 'inline', 'process']


class Gen:
    def __init__(self, rnd, max_nodes=9, features=('switch', 'oneof', 'rec', 'retry', 'fail'), modes=True):
        self.rnd = rnd
        self.max_nodes = max_nodes
        self.features = set(features)
        self.modes = modes
        self.nodes = []
        self.pool = []
        self.k = 0
        self.plan = {}
        self.recreq = {}
        self.tags = set()

    def fresh(self, prefix='N'):
        self.k += 1
        return '%s%d' % (prefix, self.k)

    def room(self):
        return self.max_nodes - len(self.nodes)

    def add(self, nid, *params, **kw):
        if self.modes and 'mode' not in kw:
            kw['mode'] = self.rnd.choice(MODES)
        if 'retry' in self.features and self.rnd.random() < 0.2:
            kw['attempts'] = self.rnd.choice([2, 3])
            kw['delay'] = self.rnd.choice([0, 0.1, 0.3])
            if self.rnd.random() < 0.3:
                kw['exceptions'] = self.rnd.choice([['E1'], ['E1', 'E2']])
            self.tags.add('retry')
        if 'retry' in self.features and self.rnd.random() < 0.12:
            kw['use_default'] = True
            self.tags.add('retry')
        # two parameters bound to the same source node collapse into one graph edge (finding D10, property C15);
        # the run-time properties are studied on programs without that shape
        seen = set()
        uniq = []
        for p in params:
            if p['kind'] == 'input':
                if p['node'] in seen:
                    continue
                seen.add(p['node'])
            uniq.append(p)
        params = uniq
        node = N(nid, *params, **kw)
        self.nodes.append(node)
        self.plan_for(node)
        return nid

    def plan_for(self, node):
        r = self.rnd
        if 'fail' not in self.features:
            return
        x = r.random()
        att = node.get('attempts') or 1
        if x < 0.12:
            self.plan[node['id']] = ['raise:' + r.choice(['E1', 'E2', 'E3'])]
            self.tags.add('fail')
        elif x < 0.2 and att > 1:
            seq = ['raise:' + r.choice(['E1', 'E2']) for _ in range(r.randint(1, att))]
            if r.random() < 0.6:
                seq.append('ok')
            self.plan[node['id']] = seq
            self.tags.add('fail')
        elif x < 0.24:
            self.plan[node['id']] = [r.choice(['none', 'falsy'])]

    def pick(self, k=1):
        k = min(k, len(self.pool))
        return self.rnd.sample(self.pool, k)

    def inputs(self, lo=1, hi=2):
        picks = self.pick(self.rnd.randint(lo, hi))
        return [I('p%d' % (i + 1), n) for i, n in enumerate(picks)]

    def block_plain(self):
        nid = self.add(self.fresh(), *self.inputs(1, 3))
        self.pool.append(nid)

    def block_switch(self):
        r = self.rnd
        if self.room() < 4:
            return self.block_plain()
        self.tags.add('switch')
        sw = self.add(self.fresh('S'), *self.inputs(1, 1), attempts=None)
        ncases = 2 if self.room() < 5 or r.random() < 0.7 else 3
        cases = []
        for i in range(ncases):
            if r.random() < 0.25 and len(self.pool) > 1:
                c = r.choice(self.pool[1:])        # an existing public node doubles as a case (shared)
                if c in [x[1] for x in cases]:
                    c = self.add(self.fresh('C'), *self.inputs(1, 2))
            else:
                c = self.add(self.fresh('C'), *self.inputs(1, 2))
            cases.append(('l%d' % (i + 1), c))
        labels = [l for l, _ in cases]
        self.plan[sw] = ['label:' + r.choice(labels)]
        extra = []
        if r.random() < 0.3:
            extra = [I('p9', self.pick(1)[0])]
        cons = self.add(self.fresh(), SW('p1', sw, cases, name='sw_' + sw), *extra)
        self.pool.append(cons)
        if r.random() < 0.3:
            c = r.choice(cases)[1]
            if c not in self.pool:
                self.pool.append(c)

    def block_oneof(self):
        r = self.rnd
        if self.room() < 3:
            return self.block_plain()
        self.tags.add('oneof')
        ncand = 2 if self.room() < 5 or r.random() < 0.6 else 3
        cands = []
        for _ in range(ncand):
            ins = self.inputs(1, 2)
            if r.random() < 0.35 and self.room() > ncand:
                up = self.add(self.fresh('U'), *ins)
                ins = [I('p1', up)]
            cands.append(self.add(self.fresh('K'), *ins))
        extra = []
        if r.random() < 0.3:
            extra = [I('p9', self.pick(1)[0])]
        cons = self.add(self.fresh(), OO('p1', cands), *extra)
        self.pool.append(cons)

    def block_rec(self):
        r = self.rnd
        if self.room() < 3:
            return self.block_plain()
        self.tags.add('rec')
        start = self.add(self.fresh('S'), *self.inputs(1, 1))
        inner = [start]
        for _ in range(r.randint(0, min(2, self.room() - 2))):
            ins = [I('p1', r.choice(inner))]
            if r.random() < 0.4:
                ins.append(I('p2', self.pick(1)[0]))       # side input from outside the sub-graph
            inner.append(self.add(self.fresh('M'), *ins))
        dins = [I('p1', inner[-1])]
        if len(inner) > 1 and r.random() < 0.3:
            dins.append(I('p2', inner[0]))
        mx = r.randint(1, 2)
        dkw = {}
        if r.random() < 0.4:
            dkw['use_default'] = True
        dest = self.add(self.fresh('D'), *dins, **dkw)
        self.recreq[dest] = r.choice([0, 1, 1, 2, mx + 1])
        for m in inner + [dest]:
            # values inside the sub-graph must carry their provenance, otherwise two iterations are
            # indistinguishable to the bodies and to the reference semantics alike
            if self.plan.get(m) and self.plan[m][0] in ('none', 'falsy'):
                del self.plan[m]
        extra = []
        if r.random() < 0.4:
            extra = [I('p9', self.pick(1)[0])]
        cons = self.add(self.fresh(), RC('p1', start, dest, mx), *extra)
        self.pool.append(cons)

    def build(self):
        r = self.rnd
        a = self.add('A')
        self.pool.append(a)
        self.plan.pop('A', None)
        blocks = [self.block_plain, self.block_plain]
        if 'switch' in self.features:
            blocks.append(self.block_switch)
        if 'oneof' in self.features:
            blocks.append(self.block_oneof)
        if 'rec' in self.features:
            blocks.append(self.block_rec)
        while self.room() > 1:
            r.choice(blocks)()
        # output: consumes up to 3 public nodes, preferring the most recent
        recent = self.pool[-3:] if len(self.pool) > 1 else self.pool
        picks = [n for n in recent if n != 'A'] or ['A']
        out = self.add('O', *[I('p%d' % (i + 1), n) for i, n in enumerate(picks)])
        prog = dict(name='', nodes=self.nodes, input='A', output='O', tags=sorted(self.tags | {'gen'}),
                    runs=[dict(input={'x': 'tokA'}, plan=self.plan, recreq=self.recreq)])
        return normalise(prog)


def random_program(seed, idx, **kw):
    rnd = random.Random('%d/%d' % (seed, idx))
    g = Gen(rnd, max_nodes=kw.pop('max_nodes', rnd.randint(4, 9)), **kw)
    p = g.build()
    p['name'] = 'gen_%d_%d' % (seed, idx)
    # a quarter of the programs declare some nodes the reusable way (build_node + constant dependency); drawn from
    # a separate stream so that the shapes of a seed stay what they were
    rnd2 = random.Random('generic/%d/%d' % (seed, idx))
    if rnd2.random() < 0.25:
        for n in p['nodes']:
            if n['params'] and rnd2.random() < 0.5:
                n['generic'] = True
    return p


def plain_shapes(seed, count, max_nodes=7):
    out = []
    for i in range(count):
        rnd = random.Random('plain/%d/%d' % (seed, i))
        # every third shape has retrying / failing nodes (still plain Input dependencies)
        g = Gen(rnd, max_nodes=rnd.randint(3, max_nodes), features=('retry', 'fail') if i % 3 == 2 else (), modes=True)
        p = g.build()
        p['name'] = 'plain_%d_%d' % (seed, i)
        rnd2 = random.Random('cotag/%d/%d' % (seed, i))
        for n in p['nodes']:
            if n['mode'] == 'coro' and rnd2.random() < 0.3:
                n['cotag'] = True
        p['tags'] = ['plain', 'gen']
        out.append(p)
    return out
