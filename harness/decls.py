"""Declaration sets for the builder / viewer properties (C15, C16, C20): generated as real Python
source, built with the real build_dag, exported for comparison with spec/Builder.tla."""
import copy
import importlib
import os
import re
import sys
import zlib

from . import programs

TRAVERSAL_DEFECTS = ['notclass', 'nobase', 'noprocess', 'unannotated_some', 'unannotated_kwargs', 'unannotated_default', 'unannotated_all',
                     'generic1',
                     'generic2']
ALL_DEFECTS = TRAVERSAL_DEFECTS + ['rec_noproto', 'rec_noaddl']


def from_program(prog, unnamed_switch=False, generic=()):
    """valid declaration set from a program; `generic`: ids declared through build_node"""
    decls = []
    for n in prog['nodes']:
        marks = []
        for idx, p in enumerate(n['params']):
            m = {'kw': p['kw'], 'kind': p['kind'], 'node': p.get('node', p.get('dest', '-')), 'sw': p.get('sw', '-'),
                 'cases': [[a, b] for a, b in p.get('cases', [])], 'cands': list(p.get('cands', [])),
                 'start': p.get('start', '-'), 'max': str(p.get('max', 0)),
                 'name': '-', 'head': '-'}
            if p['kind'] == 'switch':
                m['name'] = ('switch__?%s.%s' % (n['id'], p['kw'])) if unnamed_switch else 'switch__' + p['name']
            if p['kind'] == 'oneof':
                m['head'] = programs.oneof_head(n['id'], idx)
            marks.append(m)
        decls.append({'id': n['id'], 'defect': 'none', 'marks': marks, 'mode': n.get('mode', 'thread'),
                      'generic': n['id'] in generic and not n.get('derives'), 'derives': n.get('derives'),
                      'plainbase': bool(n.get('plainbase')), 'ntype': n.get('ntype'),
                      # every other generic base documents its run method: the node made by build_node inherits it
                      'gdoc': zlib.crc32(n['id'].encode()) % 2 == 0,
                      # every third one is derived twice (build_node of a build_node result)
                      'gtwice': zlib.crc32(n['id'].encode()) % 3 == 0})
    for x in decls:
        # every other reusable basic node has, next to its generic inputs, a FIXED dependency of its own (on the input
        # node) that the derived node must keep
        srcs = {m['node'] for m in x['marks'] if m['kind'] in ('input', 'rec')}
        if x['generic'] and x['id'] != prog['input'] and prog['input'] not in srcs and zlib.crc32(x['id'].encode()) % 2 == 1:
            x['gfixed'] = True
            # the derived run method lists the basic node's own dependencies first, then the redefined ones: the index in
            # the id of a one-of head is the parameter's position in that list
            for i, m in enumerate(x['marks']):
                if m['kind'] == 'oneof':
                    m['head'] = programs.oneof_head(x['id'], i + 1)
            x['marks'].insert(0, {'kw': 'zfix', 'kind': 'input', 'node': prog['input'], 'sw': '-', 'cases': [], 'cands': [],
                                  'start': '-', 'max': '0', 'name': '-', 'head': '-'})
    byid = {x['id']: x for x in decls}
    for x in decls:
        # a subclass shows the documentation of the run method it inherits: the root ancestor's, or - when that one
        # was declared through build_node, whose generated method has no doc - its own class doc
        root = x
        while root.get('derives'):
            root = byid[root['derives']]
        if root is not x:
            x['root'] = root['id']
            x['root_generic'] = bool(root['generic'])
            x['root_gdoc'] = bool(root['generic'] and root.get('gdoc'))
    d = {'name': prog.get('name', '?'), 'decls': decls, 'input': prog['input'], 'output': prog['output'],
         'unnamed_switch': unnamed_switch}
    return d


def expected_entry(x):
    """what the viewer must show for a real node (mirrors emit())"""
    if x.get('generic'):
        return {'ename': x['id'], 'everbose': 'null',
                'edoc': ('generic work of %s' if x.get('gdoc') else 'generic base of %s') % x['id'], 'egeneric': True,
                'etype': 'None' if x.get('plainbase') else 'processor'}
    if x.get('derives'):
        # a plain subclass of a concrete node: own name, the parent's run method (and its doc)
        doc = ('generic work of %s' % x['root']) if x.get('root_gdoc') else \
              ('generated node %s' % x['id']) if x.get('root_generic') else 'does the work of %s' % x.get('root', x['derives'])
        return {'ename': x['id'], 'everbose': 'Node ' + x['id'], 'edoc': doc, 'egeneric': False, 'etype': 'processor'}
    return {'ename': x['id'], 'everbose': 'Node ' + x['id'], 'edoc': 'does the work of %s' % x['id'], 'egeneric': False,
            'etype': 'None' if x.get('plainbase') else (x.get('ntype') or 'processor')}


def to_tla(d):
    return {'name': d['name'], 'decls': [dict({'id': x['id'], 'defect': x['defect'], 'marks': x['marks']}, **expected_entry(x))
                                         for x in d['decls']],
            'order': {x['id']: i + 1 for i, x in enumerate(d['decls'])}, 'input': d['input'], 'output': d['output']}


def reachable(d):
    byid = {x['id']: x for x in d['decls']}
    seen = {d['output']}
    stack = [d['output']]
    while stack:
        n = stack.pop()
        tg = []
        for m in byid[n]['marks']:
            if m['kind'] == 'input' or m['kind'] == 'rec':
                tg.append(m['node'])
            elif m['kind'] == 'switch':
                tg.append(m['sw'])
                tg += [c for _, c in m['cases']]
            elif m['kind'] == 'oneof':
                tg += m['cands']
        if not byid[n]['marks'] and n != d['input']:
            tg.append(d['input'])
        for x in tg:
            if x not in seen:
                seen.add(x)
                stack.append(x)
    return seen


def mutations(d):
    """all single-defect mutations placed at every declaration (reachable or not)"""
    out = []
    byid = {x['id']: x for x in d['decls']}
    dests = {m['node'] for x in d['decls'] for m in x['marks'] if m['kind'] == 'rec'}
    starts = {m['start'] for x in d['decls'] for m in x['marks'] if m['kind'] == 'rec'}
    parents = {x.get('derives') for x in d['decls']} - {None}
    for x in d['decls']:
        if x['id'] in parents:
            continue              # a defect of a parent class is a defect of its subclasses too: not a SINGLE defect
        for defect in ALL_DEFECTS:
            if defect == 'unannotated_all' and x['marks']:
                continue          # only expressible on a node without marks
            if defect == 'unannotated_kwargs' and any(m['kw'] == 'kwargs' for m in x['marks']):
                continue          # the name is taken
            if defect == 'rec_noproto' and x['id'] not in dests:
                continue
            if defect == 'rec_noaddl' and x['id'] not in starts:
                continue
            if x.get('generic'):
                if defect == 'generic1':
                    q = copy.deepcopy(d)
                    for y in q['decls']:
                        if y['id'] == x['id']:
                            y['defect'] = 'generic_partial'
                    q['name'] = '%s!generic_partial@%s' % (d['name'], x['id'])
                    out.append(q)
                continue
            if defect in ('notclass', 'nobase', 'noprocess') and (x['id'] in dests or x['id'] == d['input'] and False):
                pass
            q = copy.deepcopy(d)
            for y in q['decls']:
                if y['id'] == x['id']:
                    y['defect'] = defect
            q['name'] = '%s!%s@%s' % (d['name'], defect, x['id'])
            out.append(q)
    return out


def emit(d):
    """Python source of the declaration set"""
    L = (['from __future__ import annotations'] if d.get('future') else []) + ['import typing as t',
         'from ml_pipeline_engine.dag_builders.annotation.marks import GenericInput, Input, InputGeneric, InputOneOf',
         'from ml_pipeline_engine.dag_builders.annotation.marks import RecurrentSubGraph, SwitchCase',
         'from ml_pipeline_engine.node import ProcessorBase, RecurrentProcessor, build_node',
         'from ml_pipeline_engine.node.enums import NodeTag',
         'from ml_pipeline_engine.types import NodeBase',
         '']
    dests = {m['node'] for x in d['decls'] for m in x['marks'] if m['kind'] == 'rec'}
    starts = {m['start'] for x in d['decls'] for m in x['marks'] if m['kind'] == 'rec'}
    for x in d['decls']:
        nid = x['id']
        cls = 'N_' + nid
        defect = x['defect']

        def ann(m):
            if m['kind'] == 'input':
                return 'Input(N_%s)' % m['node']
            if m['kind'] == 'switch':
                nm = '' if m['name'].startswith('switch__?') else ', name=%r' % m['name'][len('switch__'):]
                return 'SwitchCase(switch=N_%s, cases=[%s]%s)' % (
                    m['sw'], ', '.join('(%r, N_%s)' % (lab, c) for lab, c in m['cases']), nm)
            if m['kind'] == 'oneof':
                return 'InputOneOf([%s])' % ', '.join('N_' + c for c in m['cands'])
            if m['kind'] == 'rec':
                return 'RecurrentSubGraph(start_node=N_%s, dest_node=N_%s, max_iterations=%s)' % (m['start'], m['node'], m['max'])
            raise ValueError(m['kind'])

        if defect == 'notclass':
            L += ['def %s():' % cls, '    """not a class"""', '    return None', '']
            continue
        if x.get('derives') and defect == 'none':
            L += ['class %s(N_%s):' % (cls, x['derives']), '    """generated node %s"""' % nid, '    name = %r' % nid,
                  '    verbose_name = %r' % ('Node ' + nid), '']
            continue
        params = ['self']
        tail = []
        if defect in ('unannotated_some', 'unannotated_all'):
            params.append('bare')
        if defect == 'unannotated_kwargs':
            params.append('kwargs')        # an ordinary, un-annotated parameter that happens to be called kwargs
        if nid == d['input']:
            tail.append('x=0' if defect == 'unannotated_all' else 'x: int = 0')
        for m in x['marks']:
            params.append('%s: %s' % (m['kw'], ann(m)))
        if defect == 'generic1':
            params.append('g: InputGeneric(t.Type[ProcessorBase])')
        if defect == 'generic2':
            params.append('g: GenericInput(t.Type[ProcessorBase])')
        if nid in starts and defect != 'rec_noaddl':
            tail.append('additional_data=None' if defect == 'unannotated_all' else 'additional_data: t.Any = None')
        ret = '' if defect == 'unannotated_all' else ' -> t.Any'
        if defect in ('unannotated_some', 'unannotated_kwargs', 'unannotated_default') and not x['marks'] and nid != d['input'] \
                and nid not in starts:
            tail.append('y: int = 0')
        if defect == 'unannotated_default':
            tail.append('bare=2')          # no annotation, but a default value: still an un-annotated parameter
        params += tail
        base = 'RecurrentProcessor' if (nid in dests and defect != 'rec_noproto') else 'ProcessorBase'
        if x.get('plainbase') and base == 'ProcessorBase':
            base = 'NodeBase'          # a node that implements the node interface directly: no node_type, id node__<name>
        if defect == 'nobase':
            base = 'object'
        tags = {'inline': '(NodeTag.non_async,)', 'process': '(NodeTag.process,)'}.get(x.get('mode'), '()')
        adef = 'async def' if x.get('mode') == 'coro' else 'def'
        if x.get('generic'):
            gmarks = [m for m in x['marks'] if not (x.get('gfixed') and m['kw'] == 'zfix')]
            gparams = ['self'] + ['%s: GenericInput(t.Type[ProcessorBase])' % m['kw'] for m in gmarks]
            if x.get('gfixed'):
                gparams.append('zfix: Input(N_%s)' % d['input'])
            if defect == 'generic_partial':
                gparams.append('left_generic: InputGeneric(t.Type[ProcessorBase])')
            # one more generic input, bound to a constant through dependencies_default (build_node accepts that)
            gparams.append('gconst: InputGeneric(t.Type[ProcessorBase]) = None')
            if nid in starts and defect != 'rec_noaddl':
                # the start node of a recurrent sub-graph declares additional_data - in the reusable base class
                gparams.append('additional_data: t.Any = None')
            L += ['class G_%s(%s):' % (nid, base), '    """generic base of %s"""' % nid, '    name = %r' % ('g_' + nid),
                  '    %s process(%s) -> t.Any:' % (adef, ', '.join(gparams))]
            if x.get('gdoc'):
                L += ['        """generic work of %s"""' % nid]
            L += ['        return None', '']
            deps = ', '.join('%s=%s' % (m['kw'], ann(m)) for m in gmarks)
            basis = 'G_%s' % nid
            if x.get('gtwice') and defect == 'none':
                # a reusable node derived from a reusable node derived from the basic node
                L += ['GI_%s = build_node(G_%s, class_name=%r, dependencies_default=dict(gconst=0), %s)' % (
                    nid, nid, 'GenericInner' + nid, deps), '']
                basis = 'GI_%s' % nid
            L += ['%s = build_node(%s, node_name=%r, class_name=%r, dependencies_default=dict(gconst=1), %s)' % (
                cls, basis, nid, 'Generic' + nid, deps), '']
            continue
        L += ['class %s(%s):' % (cls, base), '    """generated node %s"""' % nid, '    name = %r' % nid,
              '    verbose_name = %r' % ('Node ' + nid), '    tags = %s' % tags]
        if x.get('ntype') and defect != 'nobase':
            L += ['    node_type = %r' % x['ntype']]         # a node type of the user's own (docs: 'ml_model')
        if defect == 'nobase':
            L += ['    node_type = "processor"']
        if defect == 'noprocess':
            L += ['    process = None', '']
            continue
        L += ['    %s process(%s)%s:' % (adef, ', '.join(params), ret), '        """does the work of %s"""' % nid,
              '        return None', '']
    return '\n'.join(L) + '\n'


_modcount = [0]


def load(d, directory):
    """write the source into directory/<module>.py and import it; returns the module"""
    _modcount[0] += 1
    name = 'verif_decl_%d_%d' % (os.getpid(), _modcount[0])
    path = os.path.join(directory, name + '.py')
    with open(path, 'w') as f:
        f.write(emit(d))
    if directory not in sys.path:
        sys.path.insert(0, directory)
    importlib.invalidate_caches()
    return importlib.import_module(name)


def short(nid):
    nid = str(nid)
    for prefix in ('processor__', 'node__', 'ml_model__'):
        if nid.startswith(prefix):
            return nid[len(prefix):]
    return nid


def export_dag(dag, d):
    """(nodes, attrs, edges, map) of the real DAG in the vocabulary of Builder.tla"""
    g = dag.graph
    rename = {}
    if d.get('unnamed_switch'):
        count = {}
        for n, data in g.nodes(data=True):
            if data.get('is_switch') and re.match(r'^switch__[0-9a-f]{8}$', str(n)):
                outs = [(short(v), ed.get('kwarg_name')) for _, v, ed in g.out_edges(n, data=True)]
                key = 'switch__?%s.%s' % outs[0] if outs else 'switch__?orphan'
                count[key] = count.get(key, 0) + 1
                rename[n] = key if count[key] == 1 else '%s#%d' % (key, count[key])
    def nm(x):
        return rename.get(x, short(x))
    nodes = sorted(nm(n) for n in g.nodes)
    attrs = []
    for n, data in g.nodes(data=True):
        for k, v in data.items():
            k = getattr(k, 'value', k)
            if k == 'oneof_nodes':
                attrs.append([nm(n), 'oneof_nodes', [short(c) for c in v]])
            elif k in ('is_switch', 'is_oneof', 'is_oneof_child'):
                if v:
                    attrs.append([nm(n), str(k), 'true'])
            elif k == 'start_node':
                attrs.append([nm(n), 'start_node', short(v)])
            elif k == 'max_iterations':
                attrs.append([nm(n), 'max_iterations', str(v)])
            else:
                attrs.append([nm(n), 'other:' + str(k), repr(v)])
    edges = []
    for u, v, data in g.edges(data=True):
        kinds = 0
        for k, val in data.items():
            k = getattr(k, 'value', k)
            if k == 'kwarg_name':
                edges.append([nm(u), nm(v), 'kw', str(val)])
                kinds += 1
            elif k == 'is_switch':
                if val:
                    edges.append([nm(u), nm(v), 'sw', '-'])
                    kinds += 1
            elif k == 'case_branch':
                edges.append([nm(u), nm(v), 'case', str(val)])
                kinds += 1
            else:
                edges.append([nm(u), nm(v), 'other:' + str(k), repr(val)])
                kinds += 1
        if kinds == 0:
            edges.append([nm(u), nm(v), 'plain', '-'])
    nmap = sorted(short(k) for k in dag.node_map)
    return {'nodes': nodes, 'attrs': attrs, 'edges': edges, 'map': nmap,
            'io': [short(dag.input_node), short(dag.output_node)]}


def build(d, directory):
    """returns {'verdict': 'ok'|<error class>, 'graph': export or empty export}"""
    from ml_pipeline_engine.dag_builders.annotation import build_dag
    empty = {'nodes': [], 'attrs': [], 'edges': [], 'map': [], 'io': ['-', '-']}
    try:
        mod = load(d, directory)
    except Exception as ex:  # noqa: BLE001 - build_node raises at declaration time
        return {'verdict': type(ex).__name__, 'graph': empty, 'stage': 'declare'}, None
    try:
        dag = build_dag(getattr(mod, 'N_' + d['input']), getattr(mod, 'N_' + d['output']))
    except Exception as ex:  # noqa: BLE001
        return {'verdict': type(ex).__name__, 'graph': empty, 'stage': 'build'}, None
    return {'verdict': 'ok', 'graph': export_dag(dag, d), 'stage': 'built'}, dag
