"""Runtime shared by generated node bodies, recording collaborators and the drivers.

Values are symbolic provenance terms (DESIGN §4.1), represented as nested tuples:
  ("v", node, kwterm)      value produced by a body of `node` called with kwterm
  ("dflt", node, kwterm)   value produced by get_default(**kwargs)
  ("data", dest, k)        additional_data token requesting re-iteration k of dest's sub-graph
  ("s", text)              a raw string (input token or switch label)
  ("none",) ("falsy",)     None / 0 returned by a body
  ("recmark", data) ("errval", tok) ("unk", text)   things that must never be delivered
kwterm = tuple of (kw, term) pairs sorted by kw.
Error tokens: ("err", run, node, attempt, cls) for planned failures, ("oneof_noresult", head),
("rec_noresult", dest), ("exc", cls) for anything else, ("cancelled",).
"""
import asyncio
import contextvars
import threading

CUR_RUN = contextvars.ContextVar('verif_cur_run', default=0)

TAGS = {'v', 'dflt', 'data', 's', 'none', 'falsy', 'recmark', 'errval', 'unk'}


class PlanError(Exception):
    def __init__(self, token):
        super().__init__(token)
        self.token = token


class E1(PlanError):
    pass


class E2(PlanError):
    pass


class E3(PlanError):
    pass


class E0(PlanError):
    """an Exception whose instances are falsy (a container-like exception with nothing in it)"""

    def __len__(self):
        return 0


class ET(PlanError, TimeoutError):
    """a node's own timeout (TimeoutError is asyncio.TimeoutError since Python 3.11): an ordinary Exception"""


class SI(StopIteration):
    """a StopIteration that escapes from a body (next() on an exhausted iterator): inside coroutine code Python turns it
    into a RuntimeError (PEP 479) whose cause it is - in every execution mode the failure is that RuntimeError"""

    def __init__(self, token):
        super().__init__(token)
        self.token = token


class CE(asyncio.CancelledError):
    """a CancelledError raised by a node body itself (an awaited helper of the body was cancelled): a BaseException
    that the engine did not ask for"""

    def __init__(self, token):
        super().__init__(token)
        self.token = token


class B1(BaseException):
    """a BaseException that is not an Exception"""

    def __init__(self, token):
        super().__init__(token)
        self.token = token


EXC = {'E0': E0, 'ET': ET, 'SI': SI, 'E1': E1, 'E2': E2, 'E3': E3, 'B1': B1, 'CE': CE, 'Exception': Exception, 'PlanError': PlanError,
       'BaseException': BaseException}


def short(nid):
    nid = str(nid)
    return nid[len('processor__'):] if nid.startswith('processor__') else nid


class Runtime:
    def __init__(self):
        self.loop = None
        self.virtual = True
        self.lines = []
        self.runs = {}
        self.attempts = {}
        self.raised = {}
        self.lock = threading.Lock()
        self._pre = None
        self.jitter = None
        self.collab = {}
        self.ev_calls = 0
        self.save_calls = 0
        self.dest_start = {}
        self.act = 0
        self.seqcount = {}

    def reset(self, loop, runs, virtual=True, collab=None, jitter=None):
        self.loop = loop
        self.virtual = virtual
        self.lines = []
        self.runs = runs            # run id -> {'input':..., 'plan':..., 'recreq':...}
        self.attempts = {}
        self.raised = {}
        self._pre = None
        self.jitter = jitter
        self.collab = collab or {}
        self.ev_calls = 0
        self.save_calls = 0
        self.ev2_calls = 0
        self.seqcount = {}

    # ---- terms -----------------------------------------------------------------------------------
    def to_term(self, v):
        from ml_pipeline_engine.types import Recurrent
        if isinstance(v, tuple) and v and isinstance(v[0], str) and v[0] in TAGS:
            return v
        if v is None:
            return ('none',)
        if isinstance(v, str):
            return ('s', v)
        if isinstance(v, float) and not v:
            return ('falsy',)
        if isinstance(v, int) and not isinstance(v, bool):
            return ('s', str(v))         # int labels of switch nodes (programs.declared_label)
        if isinstance(v, Recurrent):
            return ('recmark', self.to_term(v.data))
        if isinstance(v, BaseException):
            return ('errval', self.err_token(v))
        return ('unk', type(v).__name__)

    def kwterm(self, kwargs):
        out = []
        for k, v in kwargs.items():
            k = getattr(k, 'value', k)
            out.append((str(k), self.to_term(v)))
        return tuple(sorted(out))

    def err_token(self, ex):
        from ml_pipeline_engine.dag.errors import BaseDagError
        from ml_pipeline_engine.dag.errors import OneOfDoesNotHaveResultError
        from ml_pipeline_engine.dag.errors import RecurrentSubgraphDoesNotHaveResultError
        if isinstance(ex, RuntimeError) and isinstance(ex.__cause__, SI):
            ex = ex.__cause__          # PEP 479: the RuntimeError stands for the StopIteration that caused it
        if isinstance(ex, (PlanError, B1, CE, SI)):
            tok = ex.token
            if self.raised.get(tok) is not ex:
                return ('err_copy',) + tuple(tok[1:])
            return tok
        if isinstance(ex, OneOfDoesNotHaveResultError):
            return ('oneof_noresult', str(ex.args[0]) if ex.args else '?')
        if isinstance(ex, RecurrentSubgraphDoesNotHaveResultError):
            a = ex.args[0] if ex.args else {}
            return ('rec_noresult', short(a.get('node_id', '?')) if isinstance(a, dict) else '?')
        if isinstance(ex, asyncio.CancelledError):
            return ('cancelled',)
        if isinstance(ex, BaseDagError):
            return ('dag_error', type(ex).__name__)
        return ('exc', type(ex).__name__)

    # ---- logging -----------------------------------------------------------------------------------
    def log(self, **line):
        with self.lock:
            self.lines.append(line)

    def now_ms(self):
        return int(round(self.loop.time() * 1000)) if self.virtual else 0

    # ---- bodies ------------------------------------------------------------------------------------
    def begin(self, nid, kwargs):
        run = CUR_RUN.get()
        kw = self.kwterm(kwargs)
        with self.lock:
            key = (run, nid, kw)
            k = self.attempts.get(key, 0) + 1
            self.attempts[key] = k
        self.log(e='BodyStart', r=run, n=nid, kw=kw, k=k, t=self.now_ms(), act=self.act)
        return run, kw, k

    def outcome(self, run, nid, kw, k):
        spec = self.runs[run]
        plan = spec.get('plan', {}).get(nid) or ['ok']
        byit = spec.get('plan_it', {}).get(nid)
        if byit:
            # the outcome may depend on the epoch: the number of re-iterations visible in the arguments
            ep = max_any_data_index(kw)
            plan = byit[min(ep, len(byit) - 1)]
        o = plan[min(k, len(plan)) - 1]
        seq = spec.get('recseq', {}).get(nid)
        if seq is not None and o == 'ok':
            with self.lock:
                idx = self.seqcount.get((run, nid), 0)
                self.seqcount[(run, nid)] = idx + 1
            if idx < len(seq) and seq[idx] == 'R':
                return 'rec:%d' % (idx + 1)
            return o
        req = spec.get('recreq', {}).get(nid)
        if req is not None and o == 'ok':
            it = max_data_index(kw, nid)
            if it < req:
                return 'rec:%d' % (it + 1)
        return o

    def finish(self, run, nid, kw, k, reused=False):
        from ml_pipeline_engine.types import Recurrent
        o = self.outcome(run, nid, kw, k)
        if o.startswith('raise:'):
            cls = o.split(':', 1)[1]
            tok = ('err', run, nid, k, cls)
            ex = EXC[cls](tok)
            with self.lock:
                self.raised[tok] = ex
            self.log(e='BodyEnd', r=run, n=nid, kw=kw, k=k, out=('raise', tok), t=self.now_ms(), act=self.act)
            raise ex
        if o.startswith('rec:'):
            data = ('data', nid, int(o.split(':')[1]), kw)    # the payload depends on what the destination saw
            if int(o.split(':')[1]) in self.runs[run].get('recnone', {}).get(nid, ()):
                self.log(e='BodyEnd', r=run, n=nid, kw=kw, k=k, out=('rec', ('none',)), t=self.now_ms(), act=self.act)
                return Recurrent(data=None)
            if nid in self.runs[run].get('recfalsy', ()):
                # a falsy payload is still a payload: the start node must receive it
                self.log(e='BodyEnd', r=run, n=nid, kw=kw, k=k, out=('rec', ('falsy',)), t=self.now_ms(), act=self.act)
                return Recurrent(data=0.0)
            self.log(e='BodyEnd', r=run, n=nid, kw=kw, k=k, out=('rec', data), t=self.now_ms(), act=self.act)
            return Recurrent(data=data)
        if o == 'ok':
            val = ('v', nid + '!reused-instance' if reused else nid, kw)
            ret = val
        elif o == 'none':
            val, ret = ('none',), None
        elif o == 'falsy':
            val, ret = ('falsy',), 0.0       # a falsy value that is not an int label
        elif o.startswith('label:'):
            ret = o.split(':', 1)[1]
            val = ('s', ret)
            if ret.isdigit():
                ret = int(ret)          # digit labels are ints (programs.declared_label)
        else:
            raise RuntimeError('bad plan outcome %r' % o)
        self.log(e='BodyEnd', r=run, n=nid, kw=kw, k=k, out=('ok', val), t=self.now_ms(), act=self.act)
        return ret

    async def body_async(self, nid, kwargs, reused=False):
        run, kw, k = self.begin(nid, kwargs)
        if self.virtual:
            gate = self.loop.new_gate('body', info=(run, nid))
            try:
                await gate.fut
            except asyncio.CancelledError:
                self.log(e='BodyCancelled', r=run, n=nid, kw=kw, k=k)
                raise
        else:
            await asyncio.sleep(self.jitter(run, nid, k) if self.jitter else 0)
        return self.finish(run, nid, kw, k, reused)

    def body_sync(self, nid, kwargs, reused=False):
        pre = self._pre
        self._pre = None
        if pre is not None and pre[1] == nid:
            run, kw, k = pre[0], pre[2], pre[3]
            # announced at submission; the value is built from what the body really received
            kw = self.kwterm(kwargs)
        else:
            run, kw, k = self.begin(nid, kwargs)
            if not self.virtual and self.jitter:
                import time
                time.sleep(self.jitter(run, nid, k))
        return self.finish(run, nid, kw, k, reused)

    def default(self, nid, kwargs):
        run = CUR_RUN.get()
        kw = self.kwterm(kwargs)
        val = ('dflt', nid, kw)
        self.log(e='Default', r=run, n=nid, kw=kw, out=val, t=self.now_ms())
        return val

    # executor hook for the virtual loop: called at submission time inside the submitting task
    def executor_hook(self, func, args):
        target = getattr(func, 'func', func)
        inst = getattr(target, '__self__', None)
        if inst is None:
            # the run method may be handed to a helper as its first argument (functools.partial(helper, method, ...))
            for a in getattr(func, 'args', ()) or ():
                if getattr(a, '__self__', None) is not None:
                    inst = a.__self__
                    break
        nid = getattr(type(inst), 'verif_id', None)
        if nid is None:
            return None
        kwargs = dict(getattr(func, 'keywords', {}) or {})
        # build_node's wrapper adds the constant dependencies of a generic node inside the worker
        kwargs.update(getattr(type(inst), 'verif_consts', None) or {})
        run, kw, k = self.begin(nid, kwargs)
        return (run, nid, kw, k)

    # ---- collaborators -----------------------------------------------------------------------------
    async def collab_call(self, what, n='-'):
        """what: 'ev' or 'save'; behaviour from self.collab: mode sync|yield, raise_at index list"""
        cfg = self.collab.get(what, {})
        with self.lock:
            if what == 'ev':
                self.ev_calls += 1
                idx = self.ev_calls
            elif what in ('ev2', 'ev0'):
                setattr(self, what + '_calls', getattr(self, what + '_calls', 0) + 1)
                idx = getattr(self, what + '_calls')
            else:
                self.save_calls += 1
                idx = self.save_calls
        if cfg.get('mode') == 'yield' and self.virtual:
            gate = self.loop.new_gate('collab', info=(CUR_RUN.get(), what, idx, n))
            try:
                await gate.fut
            except asyncio.CancelledError:
                # the engine cancelled the task while the collaborator call was suspended: whatever the engine does
                # after this call for node n never happens (the execution of n was cut short)
                self.log(e='Cut', r=CUR_RUN.get(), n=n, what=what)
                raise
        if idx in (cfg.get('raise_at') or ()):
            raise RuntimeError('collaborator %s failure at call %d' % (what, idx))


def max_data_index(term, dest):
    """largest k such that ("data", dest, k) occurs in term (0 if none)"""
    best = 0
    stack = [term]
    while stack:
        t = stack.pop()
        if isinstance(t, tuple):
            if len(t) == 4 and t[0] == 'data' and isinstance(t[2], int):
                # the payload of ANOTHER destination is opaque: an enclosing sub-graph's re-iteration starts the inner
                # sub-graph afresh (its destination does not see its own earlier requests through that payload)
                if t[1] == dest:
                    best = max(best, t[2])
                    stack.append(t[3])
            else:
                stack.extend(t)
    return best


def max_any_data_index(term):
    best = 0
    stack = [term]
    while stack:
        t = stack.pop()
        if isinstance(t, tuple):
            if len(t) == 4 and t[0] == 'data' and isinstance(t[2], int):
                best = max(best, t[2])
                stack.append(t[3])
            else:
                stack.extend(t)
    return best


def to_json(x):
    if isinstance(x, tuple):
        return [to_json(y) for y in x]
    if isinstance(x, list):
        return [to_json(y) for y in x]
    if isinstance(x, dict):
        return {str(k): to_json(v) for k, v in x.items()}
    return x
