"""Conformance spec -> code (DESIGN 5.1): the labelled state graph TLC explored for an Engine.tla instance is
replayed transition by transition on the real engine running on the single-step loop; after every action the
projection of the real state must equal the projection of the model state."""
import asyncio
import collections
import json
import re

from . import driver
from . import model
from . import programs
from . import runtime as rtm
from . import tlc

EXPORT_CFG = model.ENGINE_CFG + 'ACTION_CONSTRAINT Export\n'


def export_graph(inst, timeout=1800):
    """returns (init_state, edges) where edges: {state_key: [(label, dst_key)]}, states {key: st dict}"""
    st = model.check_instance(inst, cfg=EXPORT_CFG, workers=1, timeout=timeout)
    states = {}
    edges = collections.defaultdict(list)
    init = None
    for line in st['out'].splitlines():
        if not line.startswith('<<"EDGE"'):
            continue
        m = re.match(r'^<<"EDGE", (".*")>>$', line.strip())
        if not m:
            continue
        rec = json.loads(json.loads(m.group(1)))
        sk = json.dumps(rec['s'], sort_keys=True)
        dk = json.dumps(rec['d'], sort_keys=True)
        states.setdefault(sk, rec['s'])
        states.setdefault(dk, rec['d'])
        lab = tuple(rec['a'])
        if (lab, dk) not in edges[sk]:
            edges[sk].append((lab, dk))
    # the initial state is the only one without predecessor
    dsts = {d for v in edges.values() for _, d in v}
    roots = [k for k in edges if k not in dsts]
    init = roots[0] if len(roots) == 1 else None
    return init, states, edges, st


def kind_of(v):
    from ml_pipeline_engine.types import Recurrent
    if isinstance(v, Recurrent):
        return 'rec'
    if isinstance(v, BaseException):
        return 'err'
    if v is None:
        return 'none'
    if isinstance(v, str) or (isinstance(v, int) and not isinstance(v, bool)):
        return 'lab'           # labels are strings or ints (programs.declared_label)
    if isinstance(v, float) and not v:
        return 'falsy'
    return 'val'


def tname(name):
    name = str(name)
    if '—>' in name:
        m = re.search(r"—> (\S+?),", name)
        return 'oneofdag:' + rtm.short(m.group(1)) if m else name
    if name.startswith('rec-'):
        return 'rec-' + rtm.short(name[4:])
    if name.startswith('main-'):
        return 'main'
    return rtm.short(name)


def model_proj(s):
    """projection of a model state (JSON of st)"""
    tasks = s['tasks']

    def nm(i):
        return 'timer' if i < 0 else tasks[i - 1]['name']
    res = {n: (r[0] if r[0] == 'absent' else r[0]) for n, r in s['res'].items()}
    return {
        'res': {n: k for n, k in res.items() if k != 'absent'},
        'hid': sorted(n for n in s['hid'] if res.get(n, 'absent') != 'absent'), 'proc': sorted(s['proc']),
        'hidp': sorted(n for n in s['hidp'] if n in s['proc']),
        'sw': {k: v for k, v in s['sw'].items() if v != '-'},
        'active': sorted(tuple(x) for x in s['active']),
        'addl': sorted(k for k, v in s['addl'].items() if v != ['-']),
        'conds': {c: [nm(i) for i in w] for c, w in s['conds'].items() if w},
        'evw': {c: [nm(i) for i in w] for c, w in s['evw'].items() if w},
        'ev': sorted(k for k, v in s['ev'].items() if v),
        'ready': [nm(i) + ('!' if i > 0 and tasks[i - 1]['mustcancel'] else '') for i in s['ready']],
        'gates': sorted(('%s:%s' % (tasks[i - 1]['wait'][1], tasks[i - 1]['wait'][2])) if tasks[i - 1]['wait'][0] == 'cgate'
                        else nm(i) for i in s['gates']),
        'timers': len(s['timers']),
        'done': s['outcome'][0],
        'phase': 'draining' if (tasks[0]['stack'] and tasks[0]['stack'][-1].get('pc') == 'c2') else 'running',
    }


class Capture:
    managers = []
    owner = None


def make_manager_cls():
    from ml_pipeline_engine.dag.manager import DAGRunConcurrentManager
    from dataclasses import dataclass

    @dataclass
    class Recording(DAGRunConcurrentManager):
        def __post_init__(self):
            super().__post_init__()
            Capture.managers.append(self)
    return Recording


def real_proj(ex):
    """projection of the real engine's state on the virtual loop"""
    loop = ex.loop
    mgr = Capture.managers[-1] if Capture.managers else None
    main = ex.main.get(1)
    done = 'pending'
    if main is not None and main.done():
        if main.cancelled():
            done = 'cancelled'
        elif main.exception() is not None:
            done = 'error'
        else:
            done = 'value' if main.result().error is None else 'error'
    gates0 = sorted(('%s:%s' % (g.info[1], g.info[3])) if g.kind == 'collab' else (g.info or (0, '?'))[1]
                    for g in loop.pending_gates())
    if mgr is None or (main is not None and Capture.owner is not main and False):
        return {'res': {}, 'hid': [], 'proc': [], 'hidp': [], 'sw': {}, 'active': [], 'addl': [], 'conds': {},
                'evw': {}, 'ev': [], 'ready': [(tname(o.get_name()) + ('!' if o.cancelling() else '')) if isinstance(o, asyncio.Task)
                                               else 'timer' for o in loop.ready_owners()],
                'gates': gates0, 'timers': 0, 'done': done, 'phase': 'running'}
    stg = mgr._node_storage
    short = rtm.short
    # is DAGRunConcurrentManager.run still on the main task's await chain?
    phase = 'running'
    if main is not None and not main.done():
        names = []
        c = main.get_coro()
        while c is not None and hasattr(c, 'cr_code'):
            names.append(c.cr_code.co_qualname)
            c = c.cr_await
        if names and not any(x.endswith('DAGRunConcurrentManager.run') or x.endswith('Recording.run') for x in names):
            phase = 'draining'
    res = {short(k): kind_of(v) for k, v in stg.node_results.data.items()}
    hid = sorted(short(k) for k in stg.node_results._hidden_keys if k in stg.node_results.data)
    proc = sorted(short(k) for k in stg.processed_nodes.data if not isinstance(k, tuple))
    hidp = sorted(short(k) for k in stg.processed_nodes._hidden_keys if k in stg.processed_nodes.data and not isinstance(k, tuple))
    active = sorted((short(k[0]), short(k[1])) for k in stg.processed_nodes.data if isinstance(k, tuple))
    sw = {short(k): short(v.node_id) for k, v in stg.switch_results.data.items()}
    fut2task = {}
    for t in asyncio.all_tasks(getattr(loop, '_loop', loop)):
        fw = getattr(t, '_fut_waiter', None)
        if fw is not None:
            fut2task[id(fw)] = t
    lm = mgr._lock_manager

    def waiters(ws):
        out = []
        for f in ws:
            if f.done():
                continue
            t = fut2task.get(id(f))
            out.append(tname(t.get_name()) if t is not None else '?')
        return out
    conds = {}
    for c, cond in lm.condition_lock_store.items():
        w = waiters(cond._waiters)
        if w:
            conds[short(c)] = w
    evw = {}
    ev = []
    for n, e in lm.event_lock_store.items():
        w = waiters(e._waiters)
        if w:
            evw[short(n)] = w
        if e.is_set():
            ev.append(short(n))
    ready = []
    for o in loop.ready_owners():
        ready.append((tname(o.get_name()) + ('!' if o.cancelling() else '')) if isinstance(o, asyncio.Task) else 'timer')
    gates = sorted(('%s:%s' % (g.info[1], g.info[3])) if g.kind == 'collab' else (g.info or (0, '?'))[1]
                   for g in loop.pending_gates())
    return {'res': res, 'hid': hid, 'proc': proc, 'hidp': hidp, 'sw': sw, 'active': [tuple(a) for a in active],
            'addl': sorted(short(k) for k, v in mgr._additional_data.items() if v is not None),
            'conds': conds, 'evw': evw, 'ev': sorted(ev), 'ready': ready, 'gates': gates,
            'timers': len(loop.pending_timers()), 'done': done, 'phase': phase}


def normalise(p):
    """at the end of the run `_stop_coro_tasks(*self._coro_tasks)` iterates a SET of tasks (address order): the
    order of the final cancellation wake-ups is not part of the engine's behaviour, compare it as a multiset"""
    if p['done'] in ('cancelled', 'error'):
        # how the run ended abnormally (error result, raised BaseException, CancelledError of a body or of the caller)
        # is judged at level O; with several failed tasks the engine reports whichever its task SET yields first
        p = dict(p, done='failed')
    if p['done'] != 'pending':
        return dict(p, ready=sorted(p['ready']))
    if p.get('phase') == 'draining':
        # manager.run() has executed its `finally` (every task cancelled in SET order, arbitrary): what follows is the
        # cancelled tasks unwinding in that arbitrary order while PipelineChart.run awaits emit_on_pipeline_complete.
        # Only the order-independent part is compared here; what is left on the loop is judged at level O (C13).
        return {'phase': 'draining', 'done': p['done'], 'gates': [g for g in p['gates'] if g.startswith('ev:-')],
                'res': p['res'], 'sw': p['sw']}
    # wake-ups of tasks with a pending cancellation (marked '!'): sort every maximal run of them
    out = []
    run = []
    for x in p['ready']:
        if x.endswith('!'):
            run.append(x)
        else:
            out += sorted(run) + [x]
            run = []
    return dict(p, ready=out + sorted(run))


def diff(a, b):
    return {k: (a.get(k), b.get(k)) for k in set(a) | set(b) if a.get(k) != b.get(k)}


class Replayer:
    def __init__(self, prog):
        self.prog = prog
        self.mcls = make_manager_cls()

    def start(self):
        Capture.managers.clear()
        ex = driver.Execution(self.prog, manager_cls=self.mcls)
        self.ctx = driver.running(ex.loop)
        self.ctx.__enter__()
        ex.start_run(1)
        return ex

    def stop(self, ex):
        try:
            ex.post_run()
        finally:
            self.ctx.__exit__(None, None, None)

    def apply(self, ex, label):
        kind = label[0]
        if kind == 'step':
            if not ex.loop.has_ready():
                return 'no ready handle'
            ex.apply(('step',))
        elif kind == 'fire':
            cands = [o for o in ex.options() if o[0] == 'fire' and o[1] == label[1]]
            if not cands:
                return 'no pending gate for %s' % label[1]
            ex.apply(cands[0])
        elif kind == 'cancel':
            if 1 not in ex.main or ex.main[1].done():
                return 'nothing to cancel'
            ex.apply(('cancel', 1))
        elif kind == 'tick':
            if not ex.loop.pending_timers():
                return 'no timer'
            ex.apply(('timer',))
        return None


def replay_graph(prog, inst=None, max_paths=100000, collect=False, finish=True, cancel=False, collab=None):
    """Replay the instance's model graph on the real engine: every walk follows the access path to a state with an
    uncovered out-edge, then keeps taking uncovered edges, and (finish=True) is completed to the end of the run so
    that it is also a complete execution for level O.  After the first divergence (MODEL-DRIFT) nothing is compared
    any more for this instance, but the model's paths are still used as schedules (labels applied by name where
    applicable, then the run is finished eagerly) - DESIGN 5.4.
    Returns counts, the first divergence and (collect=True) the recorded executions."""
    driver.install_fake_pools()
    if collab:
        prog = dict(prog, collab={k: {'mode': v} for k, v in collab.items()})
    inst = inst or model.export_instance(prog, cancel=cancel, collab=collab)
    init, states, edges, st = export_graph(inst)
    viol = sorted(set(re.findall(r'Invariant (\w+) is violated', st['out'])))
    out = {'states': len(states), 'transitions': sum(len(v) for v in edges.values()), 'replayed': 0, 'paths': 0,
           'divergence': None, 'model_invariants_violated': viol, 'traces': [],
           'tlc': {k: st.get(k) for k in ('distinct', 'generated', 'wall_s')}}
    if init is None:
        out['divergence'] = {'what': 'no unique initial state in the exported graph', 'tlc_tail': st['out'][-800:]}
        return out
    rp = Replayer(prog)
    parent = {init: None}
    order = [init]
    q = collections.deque([init])
    while q:
        s = q.popleft()
        for lab, d in edges.get(s, ()):
            if d not in parent:
                parent[d] = (s, lab)
                order.append(d)
                q.append(d)
    covered = set()
    drift = False
    for s0 in order:
        for lab0, d0 in edges.get(s0, ()):
            if (s0, lab0, d0) in covered:
                continue
            if out['paths'] >= max_paths:
                return out
            out['paths'] += 1
            ex = rp.start()
            try:
                x = s0
                chain = []
                while parent[x] is not None:
                    chain.append((parent[x][0], parent[x][1], x))
                    x = parent[x][0]
                chain.reverse()
                walk = chain + [(s0, lab0, d0)]
                i = 0
                cur = s0
                hist = []
                while True:
                    if i < len(walk):
                        src, lab, dst = walk[i]
                    else:
                        nxt = [(lab, d) for lab, d in edges.get(cur, ()) if (cur, lab, d) not in covered]
                        if not nxt and finish:
                            nxt = list(edges.get(cur, ()))[:1]
                        if not nxt:
                            break
                        src, (lab, dst) = cur, nxt[0]
                    err = rp.apply(ex, lab)
                    hist.append(list(lab))
                    if not drift:
                        mp = normalise(model_proj(states[dst]))
                        rpj = normalise(real_proj(ex))
                        if err or rpj != mp:
                            drift = True
                            out['divergence'] = {'after': hist[-25:], 'step': len(hist), 'error': err,
                                                 'diff (model, real)': {k: [v[0], v[1]] for k, v in diff(mp, rpj).items()}}
                        else:
                            covered.add((src, lab, dst))
                            out['replayed'] = len(covered)
                    else:
                        covered.add((src, lab, dst))
                    if drift and err:
                        break
                    cur = dst
                    i += 1
                    if len(hist) > 3000:
                        break
                if drift or len(hist) > 3000:
                    # finish the run with the default policy so that the execution is complete
                    pol = driver.EagerPolicy(())
                    while len(ex.returned) < len(ex.rt.runs) and ex.actions < 6000:
                        opts = ex.options()
                        if not ex.loop.has_ready():
                            ex.quiescent_line()
                        if not opts:
                            ex.stuck = True
                            break
                        ex.apply(pol.choose(ex, opts))
                elif finish and len(ex.returned) < len(ex.rt.runs):
                    if not ex.loop.has_ready() and not ex.options():
                        ex.quiescent_line()
                        ex.stuck = True
            finally:
                rp.stop(ex)
            if collect:
                out['traces'].append({'lines': ex.rt.lines, 'schedule': [list(s) for s in ex.schedule]})
    return out


# ------------------------------------------------------------------------------------------------------------
# several runs of one chart on one loop (spec/Engine2.tla)
# ------------------------------------------------------------------------------------------------------------

def export_graph2(inst, timeout=1800):
    st = model.check_instance2(inst, cfg=model.ENGINE2_CFG + 'ACTION_CONSTRAINT Export2\n', workers=1, timeout=timeout)
    states = {}
    edges = collections.defaultdict(list)
    for line in st['out'].splitlines():
        if not line.startswith('<<"EDGE"'):
            continue
        m = re.match(r'^<<"EDGE", (".*")>>$', line.strip())
        if not m:
            continue
        rec = json.loads(json.loads(m.group(1)))
        sk = json.dumps(rec['s'], sort_keys=True)
        dk = json.dumps(rec['d'], sort_keys=True)
        states.setdefault(sk, rec['s'])
        states.setdefault(dk, rec['d'])
        lab = tuple(rec['a'])
        if (lab, dk) not in edges[sk]:
            edges[sk].append((lab, dk))
    dsts = {d for v in edges.values() for _, d in v}
    roots = [k for k in edges if k not in dsts]
    return (roots[0] if len(roots) == 1 else None), states, edges, st


def vloop_owner(h):
    from harness.vloop import handle_owner
    return handle_owner(h)


def _coarse(p):
    return {'phase': 'draining', 'done': p['done'], 'res': p['res'], 'sw': p['sw']}


def model_proj2(s):
    runs = {}
    quiet = set()
    for i, ms in enumerate(s['m'], 1):
        p = model_proj(dict(ms, ready=[]))
        p.pop('ready')
        if i not in s['started']:
            p = {'phase': 'unstarted'}
        elif p['done'] != 'pending' or p['phase'] == 'draining':
            quiet.add(i)
            p = _coarse(p)
        runs[str(i)] = p
    ready = []
    for r, t in s['ready']:
        tasks = s['m'][r - 1]['tasks']
        if r in quiet:
            ready.append('%d:*' % r)
        else:
            ready.append('%d:%s%s' % (r, 'timer' if t < 0 else tasks[t - 1]['name'], '!' if t > 0 and tasks[t - 1]['mustcancel'] else ''))
    return {'runs': runs, 'ready': _sort_quiet(ready)}


def _sort_quiet(ready):
    out = []
    run = []
    for x in ready:
        if x.endswith('!') or x.endswith('*'):
            run.append(x)
        else:
            out += sorted(run) + [x]
            run = []
    return out + sorted(run)


def real_proj2(ex):
    loop = ex.loop
    nruns = len(ex.rt.runs)
    runs = {}
    quiet = set()
    bymain = {}
    for mgr in Capture.managers:
        for r, inp in ex.inputs.items():
            if mgr.ctx.input_kwargs is inp:
                bymain[r] = mgr
    saved = list(Capture.managers)
    for r in range(1, nruns + 1):
        if r not in ex.main:
            runs[str(r)] = {'phase': 'unstarted'}
            continue
        Capture.managers[:] = [bymain[r]] if r in bymain else []
        sub = _RunView(ex, r)
        p = real_proj(sub)
        p.pop('ready')
        if p['done'] != 'pending' or p['phase'] == 'draining':
            quiet.add(r)
            p = _coarse(p)
        runs[str(r)] = p
    Capture.managers[:] = saved
    ready = []
    for h in loop.ready_handles():
        o = vloop_owner(h)
        if isinstance(o, asyncio.Task):
            r = o.get_context().get(rtm.CUR_RUN, 0)
            ready.append('%d:*' % r if r in quiet else '%d:%s%s' % (r, tname(o.get_name()), '!' if o.cancelling() else ''))
        else:
            # a timer callback: it belongs to the run in whose context the sleep was started
            r = h._context.get(rtm.CUR_RUN, 0) if h._context is not None else 0
            ready.append('%d:*' % r if r in quiet else '%d:timer' % r)
    return {'runs': runs, 'ready': _sort_quiet(ready)}


class _RunView:
    """the part of an Execution that belongs to one run (for real_proj)"""

    def __init__(self, ex, r):
        self.loop = _LoopView(ex.loop, r)
        self.main = {1: ex.main[r]}


class _LoopView:
    def __init__(self, loop, r):
        self._loop = loop
        self._r = r

    def ready_owners(self):
        return []

    def pending_gates(self):
        return [g for g in self._loop.pending_gates() if (g.info or (0,))[0] == self._r]

    def pending_timers(self):
        return [(w, h) for (w, h) in self._loop.pending_timers()
                if (h._context.get(rtm.CUR_RUN, 0) if h._context is not None else 0) == self._r]

    def __getattr__(self, k):
        return getattr(self._loop, k)


def replay_graph2(prog, overlap=True, max_paths=100000, collect=False):
    """as replay_graph, for all runs of prog on one chart and one loop"""
    driver.install_fake_pools()
    inst = model.export_instance(prog, overlap=overlap)
    init, states, edges, st = export_graph2(inst)
    viol = sorted(set(re.findall(r'Invariant (\w+) is violated', st['out'])))
    out = {'states': len(states), 'transitions': sum(len(v) for v in edges.values()), 'replayed': 0, 'paths': 0,
           'divergence': None, 'model_invariants_violated': viol, 'traces': [],
           'tlc': {k: st.get(k) for k in ('distinct', 'generated', 'wall_s')}}
    if init is None:
        out['divergence'] = {'what': 'no unique initial state in the exported graph', 'tlc_tail': st['out'][-800:]}
        return out
    mcls = make_manager_cls()
    parent = {init: None}
    order = [init]
    q = collections.deque([init])
    while q:
        s = q.popleft()
        for lab, d in edges.get(s, ()):
            if d not in parent:
                parent[d] = (s, lab)
                order.append(d)
                q.append(d)
    covered = set()
    drift = False

    def all_tasks_in_run(ex):
        return asyncio.all_tasks(ex.loop)

    for s0 in order:
        for lab0, d0 in edges.get(s0, ()):
            if (s0, lab0, d0) in covered:
                continue
            if out['paths'] >= max_paths:
                return out
            out['paths'] += 1
            Capture.managers.clear()
            ex = driver.Execution(prog, overlap=overlap, manager_cls=mcls)
            ctx = driver.running(ex.loop)
            ctx.__enter__()
            try:
                ex.start_run(1)
                x = s0
                chain = []
                while parent[x] is not None:
                    chain.append((parent[x][0], parent[x][1], x))
                    x = parent[x][0]
                chain.reverse()
                walk = chain + [(s0, lab0, d0)]
                i = 0
                cur = s0
                hist = []
                while True:
                    if i < len(walk):
                        src, lab, dst = walk[i]
                    else:
                        nxt = [(lab, d) for lab, d in edges.get(cur, ()) if (cur, lab, d) not in covered] or list(edges.get(cur, ()))[:1]
                        if not nxt:
                            break
                        src, (lab, dst) = cur, nxt[0]
                    err = None
                    if lab[0] == 'step':
                        if not ex.loop.has_ready():
                            err = 'no ready handle'
                        else:
                            ex.apply(('step',))
                    elif lab[0] == 'fire':
                        c = [o for o in ex.options() if o[0] == 'fire' and o[2] == lab[1] and o[1] == lab[2]]
                        if c:
                            ex.apply(c[0])
                        else:
                            err = 'no pending gate %s of run %s' % (lab[2], lab[1])
                    elif lab[0] == 'start':
                        ex.apply(('start', lab[1]))
                    elif lab[0] == 'tick':
                        if ex.loop.pending_timers():
                            ex.apply(('timer',))
                        else:
                            err = 'no pending timer'
                    hist.append(list(lab))
                    if not drift:
                        mp = model_proj2(states[dst])
                        rpj = real_proj2(ex)
                        if err or mp != rpj:
                            drift = True
                            d = {k: [mp.get(k), rpj.get(k)] for k in ('ready',) if mp.get(k) != rpj.get(k)}
                            for r in mp['runs']:
                                if mp['runs'][r] != rpj['runs'].get(r):
                                    d['run' + r] = {k: [mp['runs'][r].get(k), rpj['runs'].get(r, {}).get(k)]
                                                    for k in set(mp['runs'][r]) | set(rpj['runs'].get(r, {}))
                                                    if mp['runs'][r].get(k) != rpj['runs'].get(r, {}).get(k)}
                            out['divergence'] = {'after': hist[-25:], 'step': len(hist), 'error': err, 'diff (model, real)': d}
                        else:
                            covered.add((src, lab, dst))
                            out['replayed'] = len(covered)
                    else:
                        covered.add((src, lab, dst))
                    if drift and err:
                        break
                    cur = dst
                    i += 1
                    if len(hist) > 4000:
                        break
                if drift or len(ex.returned) < len(ex.rt.runs):
                    pol = driver.EagerPolicy(())
                    while len(ex.returned) < len(ex.rt.runs) and ex.actions < 8000:
                        opts = ex.options()
                        if not ex.loop.has_ready():
                            ex.quiescent_line()
                        if not opts:
                            ex.stuck = True
                            break
                        ex.apply(pol.choose(ex, opts))
            finally:
                try:
                    ex.post_run()
                finally:
                    ctx.__exit__(None, None, None)
            if collect:
                out['traces'].append({'lines': ex.rt.lines, 'schedule': [list(s) for s in ex.schedule]})
    return out


# ------------------------------------------------------------------------------------------------------------
# code -> spec, step-exact: recorded executions followed by spec/EngineTrace.tla
# ------------------------------------------------------------------------------------------------------------

TRACE_CFG = '''SPECIFICATION TSpec
ACTION_CONSTRAINT TExport
CHECK_DEADLOCK FALSE
'''


def record_execution(prog, policy, cancel_at=None, max_actions=3000):
    """run prog on the virtual loop under `policy`; returns (labels, projections after each action, lines)"""
    driver.install_fake_pools()
    Capture.managers.clear()
    ex = driver.Execution(prog, manager_cls=make_manager_cls(), max_actions=max_actions)
    labels = []
    projs = []
    with driver.running(ex.loop):
        ex.start_run(1)
        while len(ex.returned) < 1 and ex.actions < max_actions:
            if cancel_at is not None and ex.actions == cancel_at and not ex.main[1].done() and 1 not in ex.cancelled:
                opt = ('cancel', 1)
            else:
                opts = ex.options()
                if not opts:
                    break
                opt = policy.choose(ex, opts)
            if opt[0] == 'step':
                owners = ex.loop.ready_owners()
                o = owners[0] if owners else None
                lab = ['step', tname(o.get_name()) if isinstance(o, asyncio.Task) else 'timer']
            elif opt[0] == 'fire':
                lab = ['fire', opt[1]]
            elif opt[0] == 'timer':
                lab = ['tick']
            else:
                lab = ['cancel']
            ex.apply(opt)
            labels.append(lab)
            projs.append(normalise(real_proj(ex)))
        ex.post_run()
    return labels, projs, ex.rt.lines


def follow_scripts(prog, recorded, cancel=False, collab=None, timeout=600):
    """recorded: list of (labels, projs).  TLC follows every script through Engine.tla; returns per script the first
    divergence (None if the model did exactly what the code did)"""
    import os
    import tempfile
    inst = model.export_instance(prog, cancel=cancel, collab=collab)
    f = tempfile.NamedTemporaryFile('w', suffix='.json', delete=False)
    json.dump([labs for labs, _ in recorded], f)
    f.close()
    g = tempfile.NamedTemporaryFile('w', suffix='.json', delete=False)
    json.dump(inst, g)
    g.close()
    try:
        out, stats = tlc.run_tlc('EngineTrace', TRACE_CFG, env={'INSTANCE_FILE': g.name, 'SCRIPT_FILE': f.name}, workers=1,
                                 timeout=timeout)
    finally:
        os.unlink(f.name)
        os.unlink(g.name)
    got = {}
    for line in out.splitlines():
        m = re.match(r'^<<"TEDGE", (\d+), (\d+), (".*")>>$', line.strip())
        if m:
            got[(int(m.group(1)), int(m.group(2)))] = json.loads(json.loads(m.group(3)))
    res = []
    for k, (labs, projs) in enumerate(recorded, 1):
        div = None
        for i, lab in enumerate(labs, 1):
            stt = got.get((k, i))
            if stt is None:
                div = {'step': i, 'label': lab, 'what': 'the recorded action is not enabled in the model'}
                break
            mp = normalise(model_proj(stt))
            if mp != projs[i - 1]:
                div = {'step': i, 'label': lab, 'diff (model, real)': {x: [v[0], v[1]] for x, v in diff(mp, projs[i - 1]).items()}}
                break
        res.append(div)
    return res, stats, ('Error:' in out and out[-1500:] or '')
