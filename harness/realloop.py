"""Real event loop, real thread / process pools (property C17 b, c; DESIGN 7 C17).

Run as a script in a FRESH python process (the pool registries are process-wide singletons):
    python -m harness.realloop <jobs.json> <out.json>
jobs = [{'id', 'prog', 'pools': 'ok'|'none'|'thread_shutdown'|'no_process'|'no_manager'|'process_shutdown',
         'seed'}]
out  = [{'id', 'lines'}]
Timing is uncontrolled; the recorded history is ordered by a sequence number taken under a lock
that is shared with the worker processes (fork), so it is consistent with causality.
"""
import asyncio
import json
import logging
import multiprocessing
import os
import random
import sys
import types

ROOT = os.path.dirname(os.path.dirname(os.path.abspath(__file__)))
REPO = os.environ.get('VERIF_REPO', '/repo')
for p in (REPO, ROOT):
    if p not in sys.path:
        sys.path.insert(0, p)

from harness import programs  # noqa: E402
from harness import runtime as rtm  # noqa: E402

logging.disable(logging.CRITICAL)
CTX = multiprocessing.get_context('fork')


class RealRuntime(rtm.Runtime):
    def __init__(self):
        super().__init__()
        self.main_pid = os.getpid()
        self.seq = CTX.Value('i', 0)
        self.q = CTX.SimpleQueue()
        self.seqlines = []
        self.act = -1

    def log(self, **line):
        with self.seq.get_lock():
            self.seq.value += 1
            n = self.seq.value
        if os.getpid() == self.main_pid:
            with self.lock:
                self.seqlines.append((n, line))
        else:
            self.q.put((n, line))

    def start_reader(self):
        """drain the workers' pipe continuously, otherwise a worker blocks once the pipe is full"""
        import threading

        def pump():
            while True:
                item = self.q.get()
                if item is None:
                    return
                with self.lock:
                    self.seqlines.append(item)
        self.reader = threading.Thread(target=pump, daemon=True)
        self.reader.start()

    def now_ms(self):
        return 0

    def drain(self):
        self.q.put(None)
        self.reader.join(timeout=5)
        self.seqlines.sort(key=lambda x: x[0])
        return [ln for _, ln in self.seqlines]

    def begin(self, nid, kwargs):
        run = rtm.CUR_RUN.get() or 1
        kw = self.kwterm(kwargs)
        with self.lock:
            key = (run, nid, kw)
            k = self.attempts.get(key, 0) + 1
            self.attempts[key] = k
        self.log(e='BodyStart', r=run, n=nid, kw=kw, k=k, t=0, act=-1)
        return run, kw, k

    def default(self, nid, kwargs):
        run = rtm.CUR_RUN.get() or 1
        kw = self.kwterm(kwargs)
        val = ('dflt', nid, kw)
        self.log(e='Default', r=run, n=nid, kw=kw, out=val, t=0)
        return val

    def err_token(self, ex):
        if isinstance(ex, (rtm.PlanError, rtm.B1, rtm.CE, rtm.SI)) and ex.token not in self.raised:
            self.raised[ex.token] = ex        # raised in a worker process: the parent sees a copy
        return super().err_token(ex)


def set_pools(state):
    from concurrent.futures import ProcessPoolExecutor
    from concurrent.futures import ThreadPoolExecutor
    from ml_pipeline_engine.parallelism import process_pool_registry
    from ml_pipeline_engine.parallelism import threads_pool_registry
    if state in ('ok', 'no_process', 'no_manager', 'process_shutdown'):
        threads_pool_registry.register_pool_executor(ThreadPoolExecutor(4))
    if state == 'thread_shutdown':
        ex = ThreadPoolExecutor(2)
        threads_pool_registry.register_pool_executor(ex)
        ex.shutdown()
        process_pool_registry.register_manager(CTX.Manager())
        process_pool_registry.register_pool_executor(ProcessPoolExecutor(2, mp_context=CTX))
    if state == 'ok':
        process_pool_registry.register_manager(CTX.Manager())
    if state == 'no_manager':
        process_pool_registry.register_pool_executor(ProcessPoolExecutor(2, mp_context=CTX))
    if state == 'process_shutdown':
        process_pool_registry.register_manager(CTX.Manager())
        ex = ProcessPoolExecutor(2, mp_context=CTX)
        process_pool_registry.register_pool_executor(ex)
        ex.submit(int).result()
        ex.shutdown()


def fresh_process_pool():
    """a new process pool per program: workers must be forked after the program's classes exist"""
    from concurrent.futures import ProcessPoolExecutor
    from ml_pipeline_engine.parallelism import process_pool_registry
    old = process_pool_registry._pool_executor
    if old is not None:
        old.shutdown()
    process_pool_registry._pool_executor = ProcessPoolExecutor(3, mp_context=CTX)


def run_job(job, pools_ok, cache=None):
    """cache: {program name: (runtime, chart)} - the SAME chart object is run again (harness/pools.py)"""
    prog = job['prog']
    reuse = cache.get(prog['name']) if cache is not None else None
    rt = reuse[0] if reuse else RealRuntime()
    rnd = random.Random(job.get('seed', 0))
    jit = {}

    def jitter(run, nid, k):
        key = (nid, k)
        if key not in jit:
            jit[key] = rnd.choice([0, 0, 0.001, 0.003, 0.006])
        return jit[key]
    rt.reset(None, {1: prog['runs'][0]}, virtual=False, collab=None, jitter=jitter)
    rt.virtual = False
    rt.seqlines = []
    rt.start_reader()
    if reuse:
        chart = reuse[1]
    else:
        chart, dag, classes = programs.build_chart(prog, rt)
        mod = sys.modules.get('verif_generated')
        if mod is None:
            mod = sys.modules['verif_generated'] = types.ModuleType('verif_generated')
        for cls in classes.values():
            setattr(mod, cls.__name__, cls)
        if cache is not None:
            cache[prog['name']] = (rt, chart)
    if pools_ok and any(n['mode'] == 'process' for n in prog['nodes']):
        fresh_process_pool()

    async def main():
        rt.loop = asyncio.get_running_loop()
        rt.log(e='RunStart', r=1)
        tok = rtm.CUR_RUN.set(1)
        try:
            task = asyncio.ensure_future(chart.run(input_kwargs=dict(prog['runs'][0]['input'])))
            done, _ = await asyncio.wait([task], timeout=20)
            stuck = not done
            if stuck:
                rt.log(e='Quiescent', gates=0, timers=0, collab_gates=0, pending=[1], unstarted=0)
                task.cancel()
                await asyncio.wait([task], timeout=5)
            else:
                if task.cancelled():
                    # the CancelledError that ended chart.run: one that a node body raised on its own carries its token
                    try:
                        task.exception()
                        cex = None
                    except asyncio.CancelledError as ce:
                        cex = ce
                    kind, v = 'raised', (rt.err_token(cex) if cex is not None else ('cancelled',))
                elif task.exception() is not None:
                    kind, v = 'raised', rt.err_token(task.exception())
                else:
                    res = task.result()
                    if res.error is None:
                        kind, v = 'value', rt.to_term(res.value)
                    else:
                        kind, v = 'error', rt.err_token(res.error)
                rt.log(e='RunReturn', r=1, kind=kind, v=v)
            await asyncio.sleep(0.03)
            live = [t for t in asyncio.all_tasks() if t is not asyncio.current_task() and not t.done()]
            rt.log(e='PostRun', drain_steps=0, live=len(live), live_names=sorted(t.get_name() for t in live)[:8],
                   stuck=stuck, truncated=False, exc_reports=0)
        finally:
            rtm.CUR_RUN.reset(tok)

    asyncio.run(main())
    return rt.drain()


def main(argv):
    with open(argv[0]) as f:
        jobs = json.load(f)
    state = jobs[0].get('pools', 'ok') if jobs else 'ok'
    set_pools(state)
    out = []
    for job in jobs:
        try:
            lines = run_job(job, state == 'ok')
            out.append({'id': job['id'], 'lines': rtm.to_json(lines)})
        except Exception as ex:  # noqa: BLE001
            import traceback
            out.append({'id': job['id'], 'error': traceback.format_exc()[-1500:]})
    with open(argv[1], 'w') as f:
        json.dump(out, f)
    sys.stdout.flush()
    # pool workers and the multiprocessing manager would outlive us and keep the caller's pipes open:
    # the caller starts this script in its own session, so the whole process group can go at once
    import signal
    try:
        if os.getpgid(0) == os.getpid():
            os.killpg(0, signal.SIGKILL)
    finally:
        os._exit(0)


def run_in_subprocess(jobs, timeout=300, module='harness.realloop'):
    """run jobs (one pool-registry state) in a fresh interpreter; returns the list written by main()"""
    import signal
    import subprocess
    import tempfile
    d = tempfile.mkdtemp(prefix='verif_real_')
    jf = os.path.join(d, 'jobs.json')
    of = os.path.join(d, 'out.json')
    ef = os.path.join(d, 'err.txt')
    with open(jf, 'w') as f:
        json.dump(jobs, f)
    env = dict(os.environ, PYTHONPATH=ROOT + os.pathsep + REPO)
    try:
        with open(ef, 'w') as err:
            proc = subprocess.Popen([sys.executable, '-m', module, jf, of], cwd=ROOT, env=env,
                                    stdout=subprocess.DEVNULL, stderr=err, stdin=subprocess.DEVNULL, start_new_session=True)
            try:
                proc.wait(timeout=timeout)
            except subprocess.TimeoutExpired:
                pass
            finally:
                try:
                    os.killpg(proc.pid, signal.SIGKILL)
                except ProcessLookupError:
                    pass
        if not os.path.exists(of):
            with open(ef) as f:
                raise RuntimeError('real-loop runner produced no output: ' + f.read()[-2000:])
        with open(of) as f:
            return json.load(f)
    finally:
        import shutil
        shutil.rmtree(d, ignore_errors=True)


if __name__ == '__main__':
    main(sys.argv[1:])
