"""Drive the real engine on the virtual loop under a chosen schedule and record an observation history.

Schedule = sequence of choices at step boundaries.  Options at a boundary:
  ('step',)            run one ready handle
  ('fire', n, r, k)    complete the oldest pending gate of body n (run r) / collaborator gate
  ('timer',)           advance virtual time to the earliest timer
  ('start', r)         start run r (multi-run programs)
  ('cancel', r)        cancel run r
A policy object picks one option; see policies below.
"""
import asyncio
import logging
import random

from . import programs
from . import runtime as rtm
from .vloop import VLoop
from .vloop import running

DRAIN_LIMIT = 2000

logging.disable(logging.CRITICAL)   # the engine logs every node failure; irrelevant here


def install_fake_pools():
    from ml_pipeline_engine.parallelism import process_pool_registry
    from ml_pipeline_engine.parallelism import threads_pool_registry

    class FakePool:
        _shutdown = False
        _shutdown_thread = False

        def shutdown(self, *a, **k):  # noqa: ANN001
            pass

        def submit(self, fn, *a, **k):  # noqa: ANN001
            """the engine hands work to pools through loop.run_in_executor (virtualised by the loop); code that
            submits directly and then blocks on the future holds the loop for the whole body: the body runs inline"""
            import concurrent.futures
            fut = concurrent.futures.Future()
            try:
                fut.set_result(fn(*a, **k))
            except BaseException as ex:  # noqa: BLE001
                fut.set_exception(ex)
            return fut

    if not threads_pool_registry._pool_executor:
        threads_pool_registry._pool_executor = FakePool()
    if not process_pool_registry._pool_executor:
        process_pool_registry._pool_executor = FakePool()
    if not process_pool_registry._process_manager:
        class FakeMgr:
            def shutdown(self):
                pass
        process_pool_registry._process_manager = FakeMgr()


class Execution:
    """one execution of a program (all its runs) on a fresh virtual loop"""

    def __init__(self, prog, rt=None, chart=None, overlap=False, cancel=None, snap=None, max_actions=20000,
                 manager_cls=None):
        self.prog = prog
        self.rt = rt or rtm.Runtime()
        self.loop = VLoop()
        self.loop.executor_hook = self._exec_hook
        self.overlap = overlap
        self.cancel = cancel          # None or {'r': run, 'at': action index}
        self.snap = snap              # callable(chart, run_input) -> {'graph','input','classes'} strings
        self.max_actions = max_actions
        runs = {i + 1: r for i, r in enumerate(prog['runs'])}
        self.rt.reset(self.loop, runs, virtual=True, collab=prog.get('collab'))
        if chart is None:
            chart, dag, classes = programs.build_chart(prog, self.rt, manager_cls=manager_cls)
        self.chart = chart
        self.main = {}
        self.inputs = {}
        self.returned = set()
        self.pids = {}          # pipeline id of a returned result -> small index (ObsTrace C08.pid)
        self.cancelled = set()
        self.schedule = []
        self.actions = 0
        self.stuck = False
        self.truncated = False

    # the loop calls this when the engine submits a sync body to an executor: BodyStart is logged at
    # submission; the returned record becomes gate.info and is handed to body_sync at fire time
    def _exec_hook(self, func, args):
        return self.rt.executor_hook(func, args)

    def start_run(self, r):
        spec = self.rt.runs[r]
        inp = dict(spec['input'])
        self.inputs[r] = inp
        if self.snap:
            s = self.snap(self.chart, inp)
            self.rt.log(e='Snap', r=r, when='before', **s)
        tok = rtm.CUR_RUN.set(r)
        try:
            self.rt.log(e='RunStart', r=r)
            self.main[r] = self.loop.create_task(self.chart.run(input_kwargs=inp), name='main-%d' % r)
        finally:
            rtm.CUR_RUN.reset(tok)

    def _check_returns(self):
        for r, task in self.main.items():
            if r in self.returned or not task.done():
                continue
            self.returned.add(r)
            rt = self.rt
            pk = 0
            if task.cancelled():
                # the CancelledError that ended chart.run: the engine's / the caller's (no token), or one that a node
                # body raised on its own (class CE, carries its token)
                try:
                    task.exception()
                    cex = None
                except asyncio.CancelledError as ce:
                    cex = ce
                kind, v = ('cancelled' if r in self.cancelled else 'raised'), (rt.err_token(cex) if cex is not None else ('cancelled',))
            else:
                ex = task.exception()
                if ex is not None:
                    kind, v = 'raised', rt.err_token(ex)
                else:
                    res = task.result()
                    pk = self.pids.setdefault(str(res.pipeline_id), len(self.pids) + 1)
                    if res.error is None:
                        kind, v = 'value', rt.to_term(res.value)
                    else:
                        kind, v = 'error', rt.err_token(res.error)
            rt.log(e='RunReturn', r=r, kind=kind, v=v, pk=pk)
            if self.snap:
                s = self.snap(self.chart, self.inputs[r])
                rt.log(e='Snap', r=r, when='after', **s)

    def options(self):
        opts = []
        loop = self.loop
        if loop.has_ready():
            opts.append(('step',))
        seen = set()
        for g in loop.pending_gates():
            if g.kind == 'collab':
                key = ('fire', '%s:%s' % (g.info[1], g.info[3] if len(g.info) > 3 else '-'), g.info[0], g.gid)
            else:
                info = g.info or (0, '?')
                key = ('fire', info[1], info[0])
                if key in seen:
                    continue
                seen.add(key)
                key = key + (g.gid,)
            opts.append(key)
        if loop.pending_timers():
            opts.append(('timer',))
        nruns = len(self.rt.runs)
        nxt = len(self.main) + 1
        if nxt <= nruns:
            if self.overlap or all(r in self.returned for r in self.main):
                opts.append(('start', nxt))
        return opts

    def apply(self, opt):
        loop = self.loop
        self.actions += 1
        self.rt.act = self.actions
        self.schedule.append(opt[:3] if opt[0] == 'fire' else opt)
        if opt[0] == 'step':
            loop.step()
        elif opt[0] == 'fire':
            g = loop.gates.get(opt[3])
            if g is not None and g.kind == 'executor' and g.info is not None:
                self.rt._pre = g.info
            loop.fire(opt[3])
            self.rt._pre = None
        elif opt[0] == 'timer':
            loop.fire_timer()
        elif opt[0] == 'start':
            self.start_run(opt[1])
        elif opt[0] == 'cancel':
            r = opt[1]
            self.cancelled.add(r)
            self.rt.log(e='Cancel', r=r)
            self.main[r].cancel()
        self._check_returns()

    def quiescent_line(self):
        loop = self.loop
        gates = loop.pending_gates()
        self.rt.log(
            e='Quiescent',
            gates=len(gates), timers=len(loop.pending_timers()),
            collab_gates=len([g for g in gates if g.kind == 'collab']),
            # nodes with a suspended collaborator call (event callback / save): their tasks are not finished
            collab_nodes=sorted({str(g.info[3]) for g in gates if g.kind == 'collab' and len(g.info) > 3}),
            pending=[r for r, t in sorted(self.main.items()) if not t.done()],
            unstarted=len(self.rt.runs) - len(self.main),
        )

    def _sleep_hook(self, secs):
        """time.sleep called on the loop thread while the virtual loop runs: the whole loop is blocked for `secs`
        (ObsTrace C06.blocking).  Virtual: nothing really sleeps."""
        import threading
        if threading.get_ident() == self._tid:
            self.rt.log(e='Block', r=rtm.CUR_RUN.get() or 0, ms=int(round(secs * 1000)), act=self.actions)
        else:
            self._real_sleep(secs)

    def run(self, policy):
        import threading
        import time
        self._tid = threading.get_ident()
        self._real_sleep = time.sleep
        time.sleep = self._sleep_hook
        try:
            return self._run(policy)
        finally:
            time.sleep = self._real_sleep

    def _run(self, policy):
        with running(self.loop):
            self.start_run(1)
            while True:
                if self.actions >= self.max_actions:
                    self.truncated = True
                    break
                if self.cancel and self.actions == self.cancel['at'] and self.cancel['r'] in self.main \
                        and self.cancel['r'] not in self.cancelled and not self.main[self.cancel['r']].done():
                    self.apply(('cancel', self.cancel['r']))
                    continue
                if len(self.returned) == len(self.rt.runs):
                    break
                opts = self.options()
                if not self.loop.has_ready():
                    self.quiescent_line()
                if not opts:
                    self.stuck = True
                    break
                self.apply(policy.choose(self, opts))
            self.post_run()
        return self.rt.lines

    def post_run(self):
        """drain without any caller action, then report what is left on the loop"""
        loop = self.loop
        n = 0
        while loop.has_ready() and n < DRAIN_LIMIT:
            loop.step()
            n += 1
        self._check_returns()
        live = [t for t in asyncio.all_tasks(loop) if not t.done()]
        # work the engine submitted to a pool and did not withdraw (its future is neither done nor cancelled): in a
        # saturated pool such an item is still queued and its body would START after the run has ended
        pool_left = sorted(str((g.info or (0, '?'))[1]) for g in loop.pending_gates() if g.kind == 'executor')
        self.rt.log(e='PostRun', drain_steps=n, live=len(live), pool_left=pool_left,
                    live_names=sorted(t.get_name() for t in live)[:8],
                    stuck=self.stuck, truncated=self.truncated,
                    exc_reports=len([c for c in loop.exc_reports if 'exception' in c]))
        # cancel leftovers so that nothing leaks between executions
        for t in live:
            t.cancel()
        k = 0
        while loop.has_ready() and k < DRAIN_LIMIT:
            loop.step()
            k += 1


# ---- policies ----------------------------------------------------------------------------------------

class RandomPolicy:
    """seeded random walk; p_step = probability of stepping when both stepping and env actions are possible"""

    def __init__(self, seed, p_step=0.7):
        self.rnd = random.Random(seed)
        self.p_step = p_step

    def choose(self, ex, opts):
        if opts[0] == ('step',) and (len(opts) == 1 or self.rnd.random() < self.p_step):
            return opts[0]
        env = [o for o in opts if o != ('step',)]
        return self.rnd.choice(env)


class HoldPolicy(RandomPolicy):
    """random walk that completes gates whose name starts with `prefix` only when nothing else can be done: a
    collaborator call that nobody waits for (an orphan) is then never completed and stays visible at the end"""

    def __init__(self, seed, p_step=0.8, prefix='ev2'):
        super().__init__(seed, p_step)
        self.prefix = prefix

    def choose(self, ex, opts):
        rest = [o for o in opts if not (o[0] == 'fire' and str(o[1]).startswith(self.prefix))]
        return super().choose(ex, rest or opts)


class EagerPolicy:
    """step while anything is ready; at quiescence take env option number idx[i] (systematic enumeration)"""

    def __init__(self, picks=()):
        self.picks = list(picks)
        self.i = 0
        self.branching = []

    def choose(self, ex, opts):
        if opts[0] == ('step',):
            return opts[0]
        if self.i < len(self.picks):
            c = self.picks[self.i]
        else:
            c = 0
        self.i += 1
        self.branching.append(len(opts))
        return opts[min(c, len(opts) - 1)]


class OffsetPolicy:
    """step-eager, except that `second` is completed exactly `offset` actions after `first` was completed,
    even though other work is still queued (a completion landing in the middle of the engine's reaction to
    another completion).  first/second are node names (any run)."""

    def __init__(self, first, second, offset):
        self.first, self.second, self.offset = first, second, offset
        self.armed = None

    def choose(self, ex, opts):
        fires = [o for o in opts if o[0] == 'fire']
        if self.armed is not None:
            if self.armed <= 0:
                tgt = [o for o in fires if o[1] == self.second]
                if tgt:
                    self.armed = None
                    return tgt[0]
                if opts[0] != ('step',):
                    self.armed = None
            else:
                if opts[0] == ('step',):
                    self.armed -= 1
                    return opts[0]
                self.armed = 0
                tgt = [o for o in fires if o[1] == self.second]
                if tgt:
                    self.armed = None
                    return tgt[0]
        if opts[0] == ('step',):
            return opts[0]
        # quiescent: hold `first` and `second` back until both are pending, then complete them `offset` apart
        names = {o[1] for o in opts if o[0] == 'fire'}
        if self.first in names and self.second in names and self.armed is None and not getattr(self, 'done', False):
            self.armed = self.offset
            self.done = True
            return [o for o in opts if o[0] == 'fire' and o[1] == self.first][0]
        rest = [o for o in opts if not (o[0] == 'fire' and o[1] in (self.first, self.second))]
        return (rest or opts)[0]


class ScriptPolicy:
    """replay a recorded schedule (list of options without gate ids); falls back to eager/first"""

    def __init__(self, script):
        self.script = [tuple(s) for s in script]
        self.i = 0
        self.diverged = False

    def choose(self, ex, opts):
        if self.i < len(self.script):
            want = self.script[self.i]
            self.i += 1
            for o in opts:
                if (o[:3] if o[0] == 'fire' else o) == want:
                    return o
            self.diverged = True
        return opts[0]


def enumerate_eager(prog, limit=2000, make_exec=None):
    """systematic DFS over env choices at quiescent points (step-eager reduction). Yields executions."""
    stack = [[]]
    n = 0
    while stack and n < limit:
        picks = stack.pop()
        ex = make_exec() if make_exec else Execution(prog)
        pol = EagerPolicy(picks)
        ex.run(pol)
        n += 1
        yield ex
        # children: for every decision point beyond the prefix, alternative picks
        for pos in range(len(picks), len(pol.branching)):
            for alt in range(1, pol.branching[pos]):
                stack.append(picks + [0] * (pos - len(picks)) + [alt])
