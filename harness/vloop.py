"""Deterministic single-step virtual event loop.

One `step()` runs exactly one ready handle (= one atomic step of the engine, DESIGN §2.1).
Time is virtual; timers fire only when the driver calls `fire_timer()`.  `run_in_executor`
is virtualised: the submitted function runs when the driver fires the corresponding gate.
The default C `asyncio.Task`/`Future` are used unmodified.
"""
import asyncio
import collections
import heapq
from asyncio import events


class Gate:
    """A pending completion controlled by the driver (node body, executor future, collaborator)."""

    __slots__ = ('gid', 'fut', 'thunk', 'kind', 'info')

    def __init__(self, gid, fut, thunk=None, kind='body', info=None):
        self.gid = gid
        self.fut = fut
        self.thunk = thunk      # for executor gates: function run at fire time
        self.kind = kind
        self.info = info


class VLoop(asyncio.AbstractEventLoop):
    def __init__(self):
        self._ready = collections.deque()
        self._timers = []
        self._tseq = 0
        self._time = 0.0
        self._closed = False
        self.exc_reports = []
        self.gates = collections.OrderedDict()
        self._gseq = 0
        self.steps = 0

    # ---- scheduling primitives -------------------------------------------------------------
    def call_soon(self, callback, *args, context=None):
        h = events.Handle(callback, args, self, context)
        self._ready.append(h)
        return h

    call_soon_threadsafe = call_soon

    def call_later(self, delay, callback, *args, context=None):
        return self.call_at(self._time + delay, callback, *args, context=context)

    def call_at(self, when, callback, *args, context=None):
        # the virtual clock has microsecond resolution: 0.3 + 0.1 + 0.1 and 0.3 + 0.2 are the same instant (binary
        # floating point would order them), equal deadlines fire in creation order
        when = round(when * 1e6) / 1e6
        h = events.TimerHandle(when, callback, args, self, context)
        self._tseq += 1
        heapq.heappush(self._timers, (when, self._tseq, h))
        h._scheduled = True
        return h

    def _timer_handle_cancelled(self, handle):
        pass

    def create_future(self):
        return asyncio.Future(loop=self)

    def create_task(self, coro, *, name=None, context=None):
        return asyncio.Task(coro, loop=self, name=name, context=context)

    def time(self):
        return self._time

    def get_debug(self):
        return False

    def is_running(self):
        return True

    def is_closed(self):
        return self._closed

    def close(self):
        self._closed = True

    def call_exception_handler(self, context):
        self.exc_reports.append(context)

    def default_exception_handler(self, context):
        self.exc_reports.append(context)

    # ---- virtual executor ----------------------------------------------------------------------
    def new_gate(self, kind='body', thunk=None, info=None):
        fut = self.create_future()
        self._gseq += 1
        gid = self._gseq
        self.gates[gid] = Gate(gid, fut, thunk, kind, info)
        return self.gates[gid]

    def run_in_executor(self, executor, func, *args):
        hook = getattr(self, 'executor_hook', None)
        info = hook(func, args) if hook else None

        def thunk():
            return func(*args)

        return self.new_gate('executor', thunk, info).fut

    # ---- driver API ------------------------------------------------------------------------------
    def pending_gates(self):
        """gates that can be fired (future not done/cancelled)"""
        for gid in [g for g, gate in self.gates.items() if gate.fut.done()]:
            del self.gates[gid]
        return list(self.gates.values())

    def fire(self, gid):
        gate = self.gates.pop(gid)
        if gate.fut.done():
            return False
        if gate.thunk is not None:
            try:
                res = gate.thunk()
            except BaseException as ex:  # noqa: BLE001 - the body's exception is the future's outcome
                gate.fut.set_exception(ex)
            else:
                gate.fut.set_result(res)
        else:
            gate.fut.set_result(None)
        return True

    def has_ready(self):
        while self._ready and self._ready[0]._cancelled:
            self._ready.popleft()
        return bool(self._ready)

    def ready_len(self):
        return sum(1 for h in self._ready if not h._cancelled)

    def ready_owners(self):
        out = []
        for h in self._ready:
            if h._cancelled:
                continue
            out.append(handle_owner(h))
        return out

    def ready_handles(self):
        return [h for h in self._ready if not h._cancelled]

    def pending_timers(self):
        while self._timers and self._timers[0][2]._cancelled:
            heapq.heappop(self._timers)
        return [(w, h) for (w, _, h) in sorted(self._timers) if not h._cancelled]

    def fire_timer(self):
        """advance virtual time to the earliest timer and make it ready"""
        while self._timers:
            when, _, h = heapq.heappop(self._timers)
            if h._cancelled:
                continue
            if when > self._time:
                self._time = when
            h._scheduled = False
            self._ready.append(h)
            return True
        return False

    def step(self):
        while self._ready:
            h = self._ready.popleft()
            if h._cancelled:
                continue
            self.steps += 1
            h._run()
            return h
        return None


def handle_owner(h):
    cb = h._callback
    owner = getattr(cb, '__self__', None)
    if isinstance(owner, asyncio.Task):
        return owner
    if isinstance(owner, asyncio.Future):
        return owner
    return cb


class running:
    """context manager: make `loop` the running loop for everything inside"""

    def __init__(self, loop):
        self.loop = loop

    def __enter__(self):
        self._old = events._get_running_loop()
        events._set_running_loop(None)
        events._set_running_loop(self.loop)
        return self.loop

    def __exit__(self, *a):
        events._set_running_loop(None)
        if self._old is not None:
            events._set_running_loop(self._old)
        return False
