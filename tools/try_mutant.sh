#!/bin/sh
# usage: try_mutant.sh <patch> <prop> [<prop>...]   (applies to /repo, runs checks, reverts)
# with MATRIX_REPO=<dir> the patch is applied to that copy of the repository and the checks run against it
# (VERIF_REPO), from the directory this script lives in: nothing touches /repo or /verif/evidence of the main tree
patch=$1; shift
REPO_DIR=${MATRIX_REPO:-/repo}
VERIF_DIR=$(cd "$(dirname "$0")/.." && pwd)
[ -n "$MATRIX_REPO" ] && export VERIF_REPO=$MATRIX_REPO
cd $REPO_DIR || exit 2
if git apply --check "$patch" 2>/dev/null; then
  git apply "$patch"
else
  git apply --3way "$patch" >/dev/null 2>&1
  git reset -q
  if grep -rl '^<<<<<<< ' ml_pipeline_engine ml_pipeline_viewer >/dev/null 2>&1 || [ -z "$(git status --short)" ]; then
    git checkout -q -- .; echo "PATCH-DOES-NOT-APPLY $patch"; exit 3
  fi
fi
cd $VERIF_DIR
for p in "$@"; do
  ./check "$p" --tier ${TIER:-quick} > /tmp/try_mutant.out 2>&1; rc=$?
  grep "^VIOLATION" /tmp/try_mutant.out | cut -c1-200 | head -${TAILN:-2}
  grep -v "^KNOWN\|^VIOLATION\|^MODEL-DRIFT" /tmp/try_mutant.out | cut -c1-260 | tail -1
  echo "RESULT $p rc=$rc violations=$(grep -c '^VIOLATION' /tmp/try_mutant.out) drift=$(grep -c '^MODEL-DRIFT' /tmp/try_mutant.out)"
done
cd $REPO_DIR && git checkout -q -- . && git clean -fdq >/dev/null 2>&1
git status --short | head -3
