#!/bin/sh
# usage: try_mutant.sh <patch> <prop> [<prop>...]   (applies to /repo, runs quick checks, reverts)
patch=$1; shift
cd /repo || exit 2
if ! git apply --check "$patch" 2>/dev/null; then
  if ! git apply --3way --check "$patch" 2>/dev/null; then echo "PATCH-DOES-NOT-APPLY $patch"; exit 3; fi
  git apply --3way "$patch" >/dev/null 2>&1; git reset -q
else
  git apply "$patch"
fi
cd /verif
for p in "$@"; do
  ./check "$p" --tier ${TIER:-quick} 2>&1 | grep -v "^KNOWN" | cut -c1-200 | tail -${TAILN:-3}
done
cd /repo && git checkout -q -- . && git clean -fdq -e '*.pyc' >/dev/null 2>&1
git status --short | head -3
