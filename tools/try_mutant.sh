#!/bin/sh
# usage: try_mutant.sh <patch> <prop> [<prop>...]   (applies to /repo, runs checks, reverts)
patch=$1; shift
cd /repo || exit 2
if git apply --check "$patch" 2>/dev/null; then
  git apply "$patch"
else
  git apply --3way "$patch" >/dev/null 2>&1
  git reset -q
  if grep -rl '^<<<<<<< ' ml_pipeline_engine ml_pipeline_viewer >/dev/null 2>&1 || [ -z "$(git status --short)" ]; then
    git checkout -q -- .; echo "PATCH-DOES-NOT-APPLY $patch"; exit 3
  fi
fi
cd /verif
for p in "$@"; do
  ./check "$p" --tier ${TIER:-quick} > /tmp/try_mutant.out 2>&1; rc=$?
  grep "^VIOLATION" /tmp/try_mutant.out | cut -c1-200 | head -${TAILN:-2}
  grep -v "^KNOWN\|^VIOLATION\|^MODEL-DRIFT" /tmp/try_mutant.out | cut -c1-260 | tail -1
  echo "RESULT $p rc=$rc violations=$(grep -c '^VIOLATION' /tmp/try_mutant.out) drift=$(grep -c '^MODEL-DRIFT' /tmp/try_mutant.out)"
done
cd /repo && git checkout -q -- . && git clean -fdq >/dev/null 2>&1
git status --short | head -3
