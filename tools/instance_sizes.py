#!/venv/bin/python
"""(Re)compute spec/instance_sizes.json: for every curated corpus program export the Engine.tla instance, replay the
whole state graph on the real engine and record the number of model transitions.  The file is only a selection hint
for the checks (which instances fit a tier's budget); a program that drifts is reported and left out.

usage: tools/instance_sizes.py [--all]      (default: only programs missing from the file)
"""
import concurrent.futures
import json
import os
import sys

ROOT = os.path.dirname(os.path.dirname(os.path.abspath(__file__)))
sys.path.insert(0, ROOT)
sys.path.insert(0, os.environ.get('VERIF_REPO', '/repo'))


def one(prog):
    from harness import replay
    try:
        r = replay.replay_graph(prog, max_paths=100000)
    except Exception as ex:  # noqa: BLE001
        return prog['name'], None, 'error: %r' % (ex,)
    if r['divergence']:
        return prog['name'], r['transitions'], 'drift: %s %s' % (json.dumps(r['divergence'])[:300], r['model_invariants_violated'])
    if r['model_invariants_violated']:
        # the code follows the model; the MODEL breaks a property (the known findings D8 / D9): kept, the checks report it
        print('  %-40s model invariants violated: %s' % (prog['name'], r['model_invariants_violated']))
    return prog['name'], r['transitions'], None


def main(argv):
    from harness import corpus
    from harness import programs
    path = os.path.join(ROOT, 'spec', 'instance_sizes.json')
    with open(path) as f:
        sizes = json.load(f)
    # (counter-driven plans and switches whose id the builder invents have no fixed model instance)
    progs = [p for p in corpus.all_programs() if not any(r.get('recseq') for r in p['runs'])
             and not any(prm.get('unnamed') for n in p['nodes'] for prm in n['params'])
             and not programs.mixed_failures(p) and not programs.is_ambiguous(p)]
    names = {p['name'] for p in progs}
    todo = progs if '--all' in argv else [p for p in progs if p['name'] not in sizes]
    stale = sorted(set(sizes) - names)
    for k in stale:
        del sizes[k]
    print('%d programs to do, %d stale entries dropped' % (len(todo), len(stale)))
    with concurrent.futures.ProcessPoolExecutor(int(os.environ.get('VERIF_WORKERS', '8'))) as pool:
        for name, n, err in pool.map(one, todo):
            if err:
                print('  %-40s %s' % (name, err))
                sizes.pop(name, None)
            else:
                print('  %-40s %d transitions, conforms' % (name, n))
                sizes[name] = n
    with open(path, 'w') as f:
        json.dump(dict(sorted(sizes.items())), f, indent=0)
    print('%d entries written' % len(sizes))
    _ = programs


if __name__ == '__main__':
    main(sys.argv[1:])
