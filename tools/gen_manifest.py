#!/usr/bin/env python3
"""regenerate MANIFEST.json from the table below (keeps it valid at all times)"""
import json, os
ROOT = os.path.dirname(os.path.dirname(os.path.abspath(__file__)))
props = [json.loads(l) for l in open(os.path.join(ROOT, 'properties.jsonl'))]

RUNTIME_NOTE = ('Trusted: TLC 1.8 + CommunityModules Json; CPython asyncio Task/Future/locks (unmodified); the virtual single-step '
                'loop ordering callbacks like BaseEventLoop; generated provenance bodies. All-schedule claims are per bounded instance; '
                'on the real code schedules are enumerated (step-eager DFS) and sampled (seeded random walks), not exhausted.')

CHECKS = {
 'C01': ('model_checking', 'TLA+ Dataflow reference semantics + level-O trace validation by TLC of recorded real executions over systematic/random schedules; schedule-independence clause across all executions of a program', '7 C01'),
 'C02': ('model_checking', 'definite stuck verdict (virtual loop quiescence) as a TLC-checked clause on every recorded execution, under failure/None/unknown-label/one-of plans', '7 C02'),
 'C03': ('model_checking', 'every body invocation (node, kwargs) recorded from the real engine must be a member of the invocation set computed by the TLA+ reference semantics; order/announcement clauses per line', '7 C03'),
 'C04': ('model_checking', 'TLC checks invocation counts per (node, kwargs) against the reference semantics on every recorded execution', '7 C04'),
 'C05': ('model_checking', 'TLC compares the returned/raised outcome with the admissible root-cause set of the reference semantics; exception identity kept by the harness', '7 C05'),
 'C06': ('model_checking', 'quiescent-state clause (all shallower nodes finished => node started) checked by TLC at every quiescent point of recorded executions with gates withheld', '7 C06'),
 'C07': ('model_checking', 'sequences of runs on one chart: Engine2.tla (product of run managers on one loop, next run started after the previous returned while its tasks still unwind) explored by TLC and replayed transition by transition on the real engine; TLC compares each recorded run with a fresh-chart run and graph/input/class snapshots before and after', '7 C07, 11.3'),
 'C08': ('model_checking', 'overlapping runs on one loop: Engine2.tla with StartRun at every step boundary explored by TLC (SoloOutcome, NoStuck2) and replayed on the real engine; seeded random interleavings of 2-3 runs; TLC compares each recorded run with its solo outcome', '7 C08, 11.3'),
 'C09': ('model_checking', 'switch programs (nested/shared/concurrent/unknown label): invocation-set membership (routing, laziness), stuck clause', '7 C09'),
 'C10': ('model_checking', 'one-of programs (nested/sibling/chained, failing subsets, None/falsy): invocation-set membership, outcome, containment clauses', '7 C10'),
 'C11': ('model_checking', 'recurrent programs: per-epoch invocation sets with additional_data tokens from the TLA+ semantics; bound, default, exhaustion', '7 C11'),
 'C12': ('model_checking', 'retry/default grid: attempt counts, identical kwargs, virtual-time delay, default calls checked by TLC per recorded execution', '7 C12'),
 'C13': ('model_checking', 'CancelRun enabled at every state of the Engine.tla instance (also with suspending collaborators): every cancel edge replayed on the real engine, then drained without caller action and judged by TLC at level O (leftover tasks, late activity, CancelledError only); plus cancellation at every action index of seeded schedules', '7 C13, 11.3'),
 'C14': ('model_checking', 'lifecycle-event automaton per node/run evaluated by TLC on the merged recorded history', '7 C14'),
 'C19': ('model_checking', 'recording store; TLC checks exactly-one save per produced node value and no marker/failure saves at run return', '7 C19'),
}
SIDE = {
 'C15': ('translation_validation', 'Builder.tla: declarative ExpectedGraph + worklist machine with nondeterministic pop model-checked by TLC (confluence, validated-once) on every small declaration set; the real build_dag output for generated source modules validated by TLC against ExpectedGraph', '7 C15',
         'TLA+ builder specification: TLC model-checks traversal-order independence; TLC compares real build_dag graphs with the declarative graph', 'tla-builder'),
 'C16': ('translation_validation', 'every single-defect mutation of generated declaration sets at every node, built with the real build_dag / build_node; TLC compares the raised error class with ExpectedVerdict of Builder.tla; the worklist machine shows rejection in every traversal order', '7 C16',
         'TLA+ builder specification (ExpectedVerdict) evaluated by TLC on real build results; worklist machine model-checked', 'tla-builder'),
 'C17': ('model_checking', 'every execution-mode assignment (coroutine, inline, thread, process, tagged coroutine) on the virtual loop plus a sample on a real event loop with real thread/process pools, all validated at level O against the mode-free TLA+ semantics; Pools.tla (pool registries + fail-fast check of DAG.run as a state machine) model-checked by TLC, and directed / random call histories of the real registries (fresh interpreter each, chart objects re-used) validated call by call by PoolsTrace.tla', '7 C17, 11.1',
         'level-O TLA+ trace validation of virtual-loop and real-loop/real-pool executions; TLA+ state machine of the pool registries model-checked by TLC + trace validation of real registry histories', 'tla-level-o'),
 'C18': ('model_checking', 'ArtifactStore.tla (write-once map) model-checked exhaustively on a small instance; seeded save/load histories of the real FileSystemArtifactStore over adversarial ids, both formats, shared directories and failing serialisers validated action by action by TLC', '7 C18',
         'TLA+ state machine model-checked by TLC + trace validation of real store histories', 'tla-artifact-store'),
 'C20': ('translation_validation', 'the configuration produced by the real GraphConfigImpl for DAGs built from generated source modules compared by TLC with Viewer.tla ExpectedConfig (derived from the declarations through Builder.tla); repeated generation on one object; DAG snapshot unchanged', '7 C20',
         'TLA+ viewer specification evaluated by TLC on real generated descriptions', 'tla-viewer'),
}
checks = []
for pid, (cat, text, ref) in CHECKS.items():
    checks.append({
        'property_id': pid,
        'quick_cmd': './check %s --tier quick' % pid,
        'thorough_cmd': './check %s --tier thorough' % pid,
        'evidence_file': '/verif/evidence/%s.json' % pid,
        'replay_cmd_template': './check replay {path}',
        'engine': 'tla-level-o',
        'level_claimed': {'category': cat, 'text': text, 'design_ref': 'DESIGN.md section ' + ref},
        'level_note': RUNTIME_NOTE,
        'technique': 'TLC model checking of the implementation-shaped TLA+ model Engine.tla (all schedules per instance) bound to the code by replaying every model transition on the real engine; TLC trace validation of the recorded executions against ObsTrace.tla / Dataflow.tla',
    })
for pid, (cat, text, ref, tech, eng) in SIDE.items():
    checks.append({
        'property_id': pid,
        'quick_cmd': './check %s --tier quick' % pid,
        'thorough_cmd': './check %s --tier thorough' % pid,
        'evidence_file': '/verif/evidence/%s.json' % pid,
        'replay_cmd_template': './check replay {path}',
        'engine': eng,
        'level_claimed': {'category': cat, 'text': text, 'design_ref': 'DESIGN.md section ' + ref},
        'level_note': 'Trusted: TLC 1.8 + CommunityModules; the generators of declaration modules / store histories; see DESIGN.md section 9.',
        'technique': tech,
    })
checks.sort(key=lambda c: c['property_id'])
claimed = set(CHECKS) | set(SIDE)
m = {
 'version': 1,
 'setup_cmd': 'true',
 'hooks': {'guard': 'ML_PIPELINE_ENGINE_VERIF',
           'enable': 'no in-repo hooks: the harness observes the engine through DAG.run_manager, recording collaborators and a virtual event loop',
           'baseline_off_cmd': 'cd /repo && /venv/bin/python -m pytest -ra -q -p no:cacheprovider --timeout=900 --continue-on-collection-errors',
           'source_commits': [], 'add_only': True},
 'engines': [{'name': 'tla-engine', 'path': '/verif/spec/Engine.tla', 'serves_properties': sorted(set(CHECKS)), 'kind_free_text': 'implementation-shaped model of DAGRunConcurrentManager + asyncio substrate (Engine2.tla: several runs on one loop); state graph exported by TLC and replayed on the real engine (harness/replay.py)'},
             {'name': 'tla-builder', 'path': '/verif/spec/Builder.tla', 'serves_properties': ['C15', 'C16'], 'kind_free_text': 'declarative graph + worklist machine (BuilderMachine.tla), BuilderTrace.tla for real build results'},
             {'name': 'tla-artifact-store', 'path': '/verif/spec/ArtifactStore.tla', 'serves_properties': ['C18'], 'kind_free_text': 'write-once map state machine + ArtifactStoreTrace.tla'},
             {'name': 'tla-viewer', 'path': '/verif/spec/Viewer.tla', 'serves_properties': ['C20'], 'kind_free_text': 'expected viewer configuration + ViewerTrace.tla'},
             {'name': 'tla-pools', 'path': '/verif/spec/Pools.tla', 'serves_properties': ['C17'], 'kind_free_text': 'pool registries and the fail-fast check as a state machine (MC_Pools.tla) + PoolsTrace.tla for histories of the real registries'},
             {'name': 'tla-level-o', 'path': '/verif/spec/ObsTrace.tla', 'serves_properties': sorted(set(CHECKS) | {'C17'}),
              'kind_free_text': 'observable-level TLA+ trace specification + TLA+ reference semantics, evaluated by TLC on recorded executions'}],
 'checks': checks,
 'notes': 'see DESIGN.md; known findings in known_findings.json',
 'not_applicable': [{'property_id': p['id'], 'reason': 'check not built yet (framework under construction)'} for p in props if p['id'] not in claimed],
}
json.dump(m, open(os.path.join(ROOT, 'MANIFEST.json'), 'w'), indent=1)
print('checks', len(checks), 'n/a', len(m['not_applicable']))
