#!/bin/sh
# re-verify every kept seeded change against the CURRENT /repo HEAD in a scratch worktree:
# the patch applies, the 62 tests pass with it, the demonstration fails with it and passes without it
WT=/tmp/wt_verify_seeded
git -C /repo worktree remove --force $WT 2>/dev/null
git -C /repo worktree add --detach $WT HEAD >/dev/null 2>&1 || exit 2
out=${1:-/verif/seeded/VERIFIED.txt}; : > $out
echo "# verified against /repo $(git -C /repo rev-parse --short HEAD) by tools/verify_seeded.sh" >> $out
for d in /verif/seeded/C*/; do
  id=$(basename $d)
  cd $WT && git checkout -q -- . && git clean -fdq
  if ! git apply --check $d/patch.diff 2>/dev/null; then echo "$id NOAPPLY" | tee -a $out; continue; fi
  PYTHONPATH=$WT timeout 180 /venv/bin/python $d/demo.py >/dev/null 2>&1; clean=$?
  git apply $d/patch.diff
  suite=$(timeout 300 /venv/bin/python -m pytest -q -p no:cacheprovider --timeout=900 -q 2>&1 | tail -1 | sed 's/=//g; s/ in [0-9.]*s//')
  PYTHONPATH=$WT timeout 180 /venv/bin/python $d/demo.py >/dev/null 2>&1; mut=$?
  echo "$id demo_without_patch_rc=$clean demo_with_patch_rc=$mut suite_with_patch:$suite" | tee -a $out
done
cd / && git -C /repo worktree remove --force $WT
