#!/bin/sh
# verify every collected mutant in a scratch worktree: applies, suite passes, demo fails with / passes without
WT=/tmp/wt_verify
git -C /repo worktree remove --force $WT 2>/dev/null
git -C /repo worktree add --detach $WT HEAD >/dev/null 2>&1 || exit 2
out=${1:-/tmp/verify.txt}; : > $out
for d in /verif/seeded/incoming/agent_out*_*/[A-Z] /verif/seeded/incoming/agent_out*_*/extra_C /verif/seeded/incoming/agent_out*_*/C_bonus; do
  [ -f $d/patch.diff ] || continue
  name=$(echo $d | sed 's#.*incoming/agent_##')
  patch=$d/patch.diff
  port=/verif/seeded/ported/$(echo $name | tr '/' '_').diff
  cd $WT && git checkout -q -- . && git clean -fdq
  if ! git apply --check $patch 2>/dev/null; then
    if [ -f $port ] && git apply --check $port 2>/dev/null; then patch=$port; else echo "$name NOAPPLY" | tee -a $out; continue; fi
  fi
  demo=$d/demo.py
  PYTHONPATH=$WT timeout 120 /venv/bin/python $demo >/dev/null 2>&1; clean=$?
  git apply $patch
  suite=$(timeout 300 /venv/bin/python -m pytest -q -p no:cacheprovider --timeout=900 -q 2>&1 | tail -1 | sed 's/=//g')
  PYTHONPATH=$WT timeout 120 /venv/bin/python $demo >/dev/null 2>&1; mut=$?
  echo "$name patch=$(basename $patch) demo_clean_rc=$clean demo_mutant_rc=$mut suite:$suite" | tee -a $out
done
cd / && git -C /repo worktree remove --force $WT
