#!/bin/sh
# run every kept seeded change (seeded/C*/) against the quick check named in its meta.json (check_run), on /repo HEAD;
# writes seeded/MATRIX.txt.  Applies each patch to /repo and reverts it: nothing else may use /repo meanwhile.
HERE=$(cd "$(dirname "$0")/.." && pwd)
out=${1:-$HERE/seeded/MATRIX.txt}; : > $out
echo "# detection matrix on /repo $(git -C ${MATRIX_REPO:-/repo} rev-parse --short HEAD), /verif $(git -C $HERE rev-parse --short HEAD) - tools/mutant_matrix.sh" >> $out
for d in $HERE/seeded/C*/; do
  id=$(basename $d)
  props=$(/venv/bin/python -c "
import json, re
m = json.load(open('$d/meta.json'))
toks = [t for t in m.get('check_run', '').split() if re.fullmatch(r'C[0-9][0-9]', t)]
print(' '.join(dict.fromkeys(toks)) or m['property'])")
  res=$($HERE/tools/try_mutant.sh $d/patch.diff $props 2>&1)
  if echo "$res" | grep -q PATCH-DOES-NOT-APPLY; then v=NOAPPLY
  elif echo "$res" | grep -q "^RESULT .* rc=1 "; then v=DETECTED
  elif echo "$res" | grep -q "^RESULT .* rc=2 "; then v=CHECK-ERROR
  else v=MISSED; fi
  echo "$id $v $(echo "$res" | grep "^RESULT" | sed 's/RESULT //' | tr '\n' ' ')" | tee -a $out
done
