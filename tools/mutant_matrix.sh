#!/bin/sh
# run every collected mutant against the check of the property it was written for
out=${1:-/tmp/matrix.txt}; : > $out
for d in /verif/seeded/incoming/agent_out*_*/[A-Z] /verif/seeded/incoming/agent_out*_*/extra_C /verif/seeded/incoming/agent_out*_*/C_bonus; do
  [ -f $d/patch.diff ] || continue
  id=$(echo $d | sed "s#.*agent_out2*_\(C[0-9]*\)b*/.*#\1#"); name=$(echo $d | sed 's#.*incoming/agent_##')
  res=$(tools/try_mutant.sh $d/patch.diff $id 2>&1)
  if echo "$res" | grep -q PATCH-DOES-NOT-APPLY; then v=NOAPPLY
  elif echo "$res" | grep -q "^RESULT .* rc=1 "; then v=DETECTED
  elif echo "$res" | grep -q "^RESULT .* rc=2 "; then v=CHECK-ERROR
  else v=MISSED; fi
  echo "$name $id $v $(echo "$res" | grep "^RESULT" | sed 's/RESULT //')" | tee -a $out
done
