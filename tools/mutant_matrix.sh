#!/bin/sh
# run every collected mutant against the check of the property it was written for
out=${1:-/tmp/matrix.txt}; : > $out
for d in /verif/seeded/incoming/agent_out_*/[A-Z] /verif/seeded/incoming/agent_out_*/extra_C; do
  [ -f $d/patch.diff ] || continue
  id=$(echo $d | sed 's#.*agent_out_\(C[0-9]*\)b*/.*#\1#'); name=$(echo $d | sed 's#.*agent_out_##')
  res=$(tools/try_mutant.sh $d/patch.diff $id 2>&1)
  if echo "$res" | grep -q PATCH-DOES-NOT-APPLY; then v=NOAPPLY
  elif echo "$res" | grep -q "^VIOLATION"; then v=DETECTED
  else v=MISSED; fi
  echo "$name $id $v" | tee -a $out
done
